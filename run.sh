#!/bin/sh
# usage: ./run.sh <Cxx> [--tier quick|thorough] [--replay file]
cd "$(dirname "$0")" || exit 2
export PYTHONDONTWRITEBYTECODE=1
exec /venv/bin/python -m vp.runner "$@"
