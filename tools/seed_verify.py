#!/usr/bin/env python3
"""
Confirms a seeded change produced by a sub-agent and runs the checks against it.

  tools/seed_verify.py C07 [--worktree /tmp/seed-C07] [--checks C07 C10 ...] [--id C07a] [--all]

Steps (all in a scratch copy of /repo under /dev/shm, removed afterwards):
  1. demo passes on the unchanged copy, 2. patch applies, 3. demo fails on the patched copy,
  4. the 44 baseline tests still pass on the patched copy, 5. the listed checks are run against the patched copy.
Writes /verif/seeded/<id>/{patch.diff, demo.py, meta.json}.
"""
import argparse, json, os, shutil, subprocess, sys, tempfile
from pathlib import Path

VERIF = Path(__file__).resolve().parent.parent
PY = "/venv/bin/python"


def sh(cmd, **kw):
    return subprocess.run(cmd, capture_output=True, text=True, **kw)


def main():
    ap = argparse.ArgumentParser()
    ap.add_argument("prop")
    ap.add_argument("--worktree", default="")
    ap.add_argument("--checks", nargs="*", default=None)
    ap.add_argument("--id", default="")
    ap.add_argument("--scale", default="1")
    ap.add_argument("--all", action="store_true")
    a = ap.parse_args()
    prop = a.prop.upper()
    wt = Path(a.worktree or f"/tmp/seed-{prop}")
    sid = a.id or prop
    stored = VERIF / "seeded" / sid
    if (wt / "seed_patch.diff").exists():
        patch = (wt / "seed_patch.diff").read_text()
        demo = (wt / "seed_demo.py").read_text()
        meta = json.loads((wt / "seed_meta.json").read_text()) if (wt / "seed_meta.json").exists() else {}
    else:
        # re-run from the stored copy under /verif/seeded/<id>/
        patch = (stored / "patch.diff").read_text()
        demo = (stored / "demo.py").read_text()
        sm = json.loads((stored / "meta.json").read_text())
        meta = {k: sm.get(k) for k in ("what_changed", "needs_to_manifest", "files_changed")}
        wt = Path(sm.get("worktree") or f"/tmp/seed-{prop}")
    root = Path(tempfile.mkdtemp(prefix="seedchk.", dir="/tmp"))   # same file system kind as /repo: two doctests depend on directory listing order
    report = {"property": prop, "agent_meta": meta}
    try:
        repo = root / "repo"
        # the demo copy keeps the example data tree that the suite generates (some demos search it)
        shutil.copytree("/repo", repo, ignore=shutil.ignore_patterns(".git", "__pycache__", "docs", "*.pyc"))
        demo_local = demo.replace(str(wt), str(repo))
        (repo / "seed_demo.py").write_text(demo_local)
        env = dict(os.environ, HOME=str(root / "home"))
        (root / "home").mkdir()
        r0 = sh([PY, "seed_demo.py"], cwd=repo, env=env)
        report["demo_unchanged_exit"] = r0.returncode
        (root / "p.diff").write_text(patch)
        rp = sh(["patch", "-p1", "-s", "-i", str(root / "p.diff")], cwd=repo)
        report["patch_applies"] = rp.returncode == 0
        if rp.returncode:
            print("PATCH DOES NOT APPLY", rp.stdout, rp.stderr)
        r1 = sh([PY, "seed_demo.py"], cwd=repo, env=env)
        report["demo_patched_exit"] = r1.returncode
        report["demo_patched_tail"] = (r1.stdout + r1.stderr)[-600:]
        # baseline and checks run on a second, fresh patched copy (demos may leave a partial data tree behind,
        # which makes the suite's own data generation skip)
        repo_b = root / "repo_b"
        shutil.copytree("/repo", repo_b, ignore=shutil.ignore_patterns(".git", "__pycache__", "docs", "*.pyc", "SPIL_PROJECTS"))
        sh(["patch", "-p1", "-s", "-i", str(root / "p.diff")], cwd=repo_b)
        rb = sh([str(VERIF / "baseline.sh")], env=dict(env, REPO_DIR=str(repo_b)))
        repo = repo_b
        report["baseline_with_patch"] = rb.stdout.strip().splitlines()[:6]
        report["baseline_ok"] = rb.returncode == 0
        checks = a.checks if a.checks is not None else [prop]
        if a.all:
            checks = [f"C{i:02d}" for i in range(1, 21)]
        envc = dict(os.environ, SPIL_VERIF_REPO=str(repo), SPIL_VERIF_REPLAY_DIR=str(root / "replay"))
        results = {}
        for c in checks:
            r = sh([str(VERIF / "run.sh"), c, "--tier", "quick", "--no-evidence", "--scale", a.scale], env=envc)
            sigs = [l.strip() for l in r.stdout.splitlines() if l.strip().startswith("signature:")]
            results[c] = {"exit": r.returncode, "verdict": {0: "missed", 1: "caught", 2: "harness-error"}.get(r.returncode, "?"),
                          "signatures": sigs[:4], "summary": r.stdout.strip().splitlines()[-1][:200] if r.stdout.strip() else ""}
            if r.returncode == 2:
                results[c]["stderr"] = r.stderr[-800:]
            print(f"  {c}: {results[c]['verdict']}  {sigs[:2]}")
        report["checks"] = results
        ok = report["demo_unchanged_exit"] == 0 and report["patch_applies"] and report["demo_patched_exit"] != 0 and report["baseline_ok"]
        report["confirmed"] = ok
        print(json.dumps({k: report[k] for k in ("demo_unchanged_exit", "patch_applies", "demo_patched_exit", "baseline_ok", "confirmed")}))
        if ok:
            out = VERIF / "seeded" / sid
            out.mkdir(parents=True, exist_ok=True)
            (out / "patch.diff").write_text(patch)
            (out / "demo.py").write_text(demo)
            m = {"id": sid, "property": prop,
                 "what_changed": meta.get("what_changed"), "needs_to_manifest": meta.get("needs_to_manifest"),
                 "files_changed": meta.get("files_changed"), "worktree": str(wt),
                 "repo_commit": sh(["git", "-C", "/repo", "log", "--format=%h", "-1"]).stdout.strip(),
                 "demo": f"written for worktree {wt}; tools/seed_verify.py rewrites that path to its scratch copy",
                 "confirmed_by": "tools/seed_verify.py: demo exit 0 on the unchanged copy, non-zero on the patched copy; 44 baseline tests pass with the patch",
                 "checks_run": results}
            (out / "meta.json").write_text(json.dumps(m, indent=1))
        return 0
    finally:
        shutil.rmtree(root, ignore_errors=True)


if __name__ == "__main__":
    sys.exit(main())
