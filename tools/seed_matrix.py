#!/usr/bin/env python3
"""
Runs every registered check (quick tier, reduced scale) against every stored seeded change and writes
seeded/MATRIX.json + seeded/MATRIX.md: which check catches which change.   usage: tools/seed_matrix.py [--scale 0.5] [ids...]
"""
import argparse, json, os, shutil, subprocess, sys, tempfile
from pathlib import Path

VERIF = Path(__file__).resolve().parent.parent


def main():
    ap = argparse.ArgumentParser()
    ap.add_argument("ids", nargs="*")
    ap.add_argument("--scale", default="0.5")
    ap.add_argument("--checks", nargs="*", default=[f"C{i:02d}" for i in range(1, 21)])
    ap.add_argument("--out", default=str(VERIF / "seeded"))
    a = ap.parse_args()
    ids = a.ids or sorted(p.name for p in (VERIF / "seeded").iterdir() if (p / "patch.diff").exists())
    out_json = Path(a.out) / "MATRIX.json"
    matrix = json.loads(out_json.read_text()) if out_json.exists() else {}
    for sid in ids:
        root = Path(tempfile.mkdtemp(prefix="seedmx.", dir="/dev/shm"))
        try:
            repo = root / "repo"
            shutil.copytree("/repo", repo, ignore=shutil.ignore_patterns(".git", "__pycache__", "docs", "*.pyc", "SPIL_PROJECTS"))
            r = subprocess.run(["patch", "-p1", "-s", "-i", str(VERIF / "seeded" / sid / "patch.diff")], cwd=repo)
            if r.returncode:
                print(sid, "patch failed")
                continue
            env = dict(os.environ, SPIL_VERIF_REPO=str(repo), SPIL_VERIF_REPLAY_DIR=str(root / "replay"))
            row = matrix.setdefault(sid, {})
            for c in a.checks:
                r = subprocess.run([str(VERIF / "run.sh"), c, "--tier", "quick", "--no-evidence", "--scale", a.scale], env=env, capture_output=True, text=True)
                row[c] = {0: "-", 1: "K", 2: "E"}.get(r.returncode, "?")
                print(sid, c, row[c], flush=True)
            out_json.write_text(json.dumps(matrix, indent=1))
        finally:
            shutil.rmtree(root, ignore_errors=True)
    checks = a.checks
    lines = ["| seeded change | " + " | ".join(c[1:] for c in checks) + " |", "|---|" + "|".join("---" for _ in checks) + "|"]
    for sid in sorted(matrix):
        lines.append(f"| {sid} | " + " | ".join(matrix[sid].get(c, " ") for c in checks) + " |")
    (Path(a.out) / "MATRIX.md").write_text("K = check reports a violation on the seeded change, - = quiet, E = harness error\n\n" + "\n".join(lines) + "\n")


if __name__ == "__main__":
    main()
