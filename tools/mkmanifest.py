#!/usr/bin/env python3
"""Regenerates MANIFEST.json from the table below (kept in one place so it stays valid)."""
import json, subprocess
from pathlib import Path

VERIF = Path(__file__).resolve().parent.parent

SETUP = ("/venv/bin/python -c 'import hypothesis' 2>/dev/null || "
         "/venv/bin/pip install --no-index --find-links /opt/veriftools/wheels hypothesis")

# property -> (level category, technique, level text, level note, design ref)
CHECKS = {}

def check(pid, category, technique, text, note, ref):
    CHECKS[pid] = dict(category=category, technique=technique, text=text, note=note, ref=ref)

check("C01", "exploration", "property-based testing (Hypothesis) against an independent reference typing model",
      "Generated strings (valid, edited, junk, uri-prefixed, control characters) are typed by the library and by a reference "
      "model written from the raw configuration; any difference in type, fields, string, truth value or length, or any exception, is a violation. "
      "Random exploration of an unbounded input space: strong evidence, not a proof.",
      "Trusted: vp/confmodel.py (reference typing), Hypothesis; resolva 0.0.1 is treated as part of the system under test.",
      "DESIGN.md section 2, C01")

check("C02", "exploration", "property-based testing (Hypothesis) of round-trip relations plus exhaustive product enumeration (thorough)",
      "Every generated typed Sid is rebuilt from uri, shuffled fields, query, eval(repr()) and copy() and compared on type, string, fields and ==; "
      "canonical string checked against the reference rendering; pairs checked for == <=> (type, fields). Thorough tier enumerates the full product of reduced per-key value sets.",
      "Trusted: reference key order / typing in vp/confmodel.py. Query round trip restricted as in the property text.",
      "DESIGN.md section 2, C02")
check("C03", "exploration", "property-based testing (Hypothesis) of navigation invariants",
      "For generated typed (concrete / search / forced-type) and untyped Sids, every key's get_as, parent, the parent chain, '/', keytype, basetype and len are "
      "checked against prefixes computed from the reference key order.",
      "Trusted: reference key order in vp/confmodel.py. parent / last == sid only demanded for naturally typed Sids.",
      "DESIGN.md section 2, C03")
check("C04", "exploration", "property-based testing (Hypothesis) against an independent decision table for query application",
      "Generated (Sid, overlay, call form) triples are applied through Sid(s?q), get_with(query=), get_with(**kw) and get_with(key=, value=) and compared with "
      "a reference decision table (no / one / several fitting types, search or not, '~' and None semantics).",
      "Trusted: vp/confmodel.py overlay + types_for_fields. Values restricted to URL-safe, non-empty strings.",
      "DESIGN.md section 2, C04")
check("C19", "exploration", "property-based testing (Hypothesis) over a template grammar, differential against an independent implementation of the statement",
      "Generated template configurations are extrapolated by the library and by a reference implementation written from the statement (order included), "
      "plus direct invariants (no duplicates, explicit entries untouched, only prefixes added, input not mutated); pattern_replacing is compared with sequential replacement.",
      "Trusted: vp/confmodel.py ref_extrapolate / ref_pattern_replacing; generator emits only well-formed inputs (unique names and templates).",
      "DESIGN.md section 2, C19")

check("C07", "exploration", "property-based testing (Hypothesis) against an independent reference unfolding",
      "Generated searches (symbols, comma lists, aliases, '**' spans, 0-2 filters, malformed) are unfolded by the library and by a reference written from the statement; "
      "results are compared as sets of uris, exceptions included; malformed searches and filters on a narrowing key get weak invariants only.",
      "Trusted: vp/refsearch.py + vp/confmodel.py. do_extrapolate=True is only checked for string-superset and validity of elements.",
      "DESIGN.md section 2, C07")

check("C08", "exploration", "property-based testing (Hypothesis): generated universes and searches against a reference unfolding + segment glob matcher",
      "For generated lists (complete hierarchies, leaves only, noisy) and searches, FindInList.find (as strings and as Sids) is compared as a multiset with the entries "
      "matching a reference form; sid.match is compared with the same predicate on single-element lists.",
      "Trusted: vp/refsearch.py glob matcher and unfolding. Open known finding: '[seq]' is an fnmatch character class in glob2re (tolerated only with that exact signature).",
      "DESIGN.md section 2, C08")

check("C05", "exploration", "property-based testing (Hypothesis): round trip, purity, injectivity map and differential against an independent template rendering",
      "Generated concrete Sids with collision-seeking free values are mapped to paths in every configuration (either configuration touched first) and back; "
      "a run-wide path -> uri map checks injectivity; relative paths are compared across configurations; the path text is compared with an independent rendering of the raw path template.",
      "Trusted: vp/confmodel.py PathModel (template tokenisation, value mapping). Free values '', '.', '..' excluded.",
      "DESIGN.md section 2, C05")
check("C06", "exploration", "property-based testing (Hypothesis) with structured path mutations and a validity predicate",
      "Valid paths are mutated (desynchronised duplicate fields, changed literals, dropped / duplicated / added components, root switches, trailing characters) and "
      "resolved; any exception is a violation, and a typed result must own exactly the given path.",
      "Validity predicate only; completeness is covered by C05.",
      "DESIGN.md section 2, C06")

check("C09", "exploration", "property-based testing (Hypothesis): generated universes materialised as list / file tree / configured sources, against a reference 'greatest per group' model",
      "For generated universes with order-sensitive names and searches with '>' at any position, FindInList, FindInPaths and FindInAll are each compared with the "
      "reference selection (group by the segments before '>', greatest remaining segment list) computed over that Finder's own data; Sid.get_last is compared with the single reference answer.",
      "Trusted: vp/reffind.py (finder semantics incl. constants sources), vp/refsearch.py. Open known finding: FindInAll selects per source when '>' is on the project level.",
      "DESIGN.md section 2, C09")

check("C10", "exploration", "metamorphic property-based testing (Hypothesis): five rewrite rules over generated universes on three finders",
      "Pairs (search, derived searches) generated by the rewrite rules R1-R5 are evaluated on FindInList, FindInPaths and FindInAll over the same generated universe and "
      "the set relations of the statement are checked between the implementation's own results; plus no duplicates and every result typed and matching a reference form.",
      "Implementation compared with itself (metamorphic by design); reference unfolding only for the 'matches the search' clause. R4/R5 rewrite open positions only.",
      "DESIGN.md section 2, C10")
check("C11", "exploration", "differential property-based testing (Hypothesis): list vs local tree vs server tree vs configured sources, with junk injection",
      "Generated universes are materialised as list, local tree and server tree; every search is answered by FindInList, FindInPaths(local), FindInPaths(server) and FindInAll, "
      "compared with each other through a reference existence model, before and after injecting junk that an independent strict path parser rejects.",
      "Trusted: vp/reffind.py, vp/confmodel.py strict path parser. Open known finding shared with C09 ('>' on the project level is selected per source by FindInAll).",
      "DESIGN.md section 2, C11")
check("C12", "exploration", "property-based testing (Hypothesis) over generated histories (create / query / probe) with a reference existence model",
      "Histories interleave entity creation with queries and Sid probes; after every step exists / find_one / as_sid=False are compared with find on three finders and "
      "sid.exists / children / siblings with the reference existence model; existing file-system entities must have an existing parent.",
      "Trusted: vp/reffind.py. Open known finding: shot__cache_node has no source in the demo data conf (existing node file with non-existing parent).",
      "DESIGN.md section 2, C12")

check("C13", "exploration", "differential testing against freshly forked interpreters (zygote per PYTHONHASHSEED): exhaustive ordered pairs over a call alphabet + Hypothesis-generated call sequences",
      "Every call of a ~500-call alphabet has a truth value computed in a fresh post-import process; all ordered pairs of a sub-alphabet, generated sequences up to length 50 (with entity "
      "creation), a 5000-Sid flood and reduced cache capacity are executed in one process each and every result is compared with the truth; truths are compared across 8 hash seeds and across argument-passing styles.",
      "Trusted: vp/zygote.py (fork-after-import = fresh process). Results produced in set order are compared sorted; results of the list Finder (fresh and long-lived instances) are compared in order.",
      "DESIGN.md section 2, C13")

check("C14", "exploration", "property-based testing (Hypothesis) of operation sequences with mutation attempts, invariant = creation-time snapshot",
      "Bundles of Sids (incl. same-string / different-type and equal Sids built through different constructors) undergo generated sequences of public operations; every returned "
      "container and derived Sid is mutated; after every step each bundle Sid must show its creation-time string, type, fields, uri and hash; equality, hashing, set / dict and sort laws are checked on all pairs.",
      "Public API only. Caches of the code under test are cleared before every generated case so that failures reproduce from the saved case.",
      "DESIGN.md section 2, C14")

check("C15", "exploration", "model-based testing: exhaustive operation sequences over a small alphabet (length <= 4 quick / <= 6 thorough) plus Hypothesis-generated sequences up to 40 operations, against an in-memory model",
      "Every sequence of create / set / update over the alphabet is executed on the real file tree and on a model (existing set + overlay per sidecar class); return values, SpilExceptions, "
      "'failed call changes nothing' (byte snapshot), existence, search membership, ancestors and data read by a NEW Getter are compared after every step; sampled sequences are re-read in a freshly forked post-import process.",
      "Trusted: the in-memory model in vp/checks/c15.py, vp/reffind.py for constants-backed levels. Reserved attribute keys excluded.",
      "DESIGN.md section 2, C15")

check("C16", "exploration", "property-based testing (Hypothesis): generated trees with attribute data, Getter output against Finder output and a data model",
      "For generated trees with random sidecar data, searches, attribute lists and three sid_encode functions, GetFromPaths.get is compared record by record (count, order, 'sid' entry, stored data / requested keys) with "
      "FindInPaths.find; GetFromAll is compared as a multiset with GetFromPaths for types with a configured Getter and must yield nothing for the others; get_one / get_data / get_attr are checked against the same records.",
      "Trusted: sidecar location from the configuration's get_data_json_path. Empty attributes list not generated.",
      "DESIGN.md section 2, C16")
check("C18", "exploration", "property-based testing (Hypothesis): generated version sets and publish loops against a version-set model",
      "Trees with dense / sparse / first / maximal / empty version sets; get_last, get_next and get_new are compared on task / version / state / file level Sids (version concrete, '*', '>' or absent) with "
      "a model over the existing versions (reference '>' selection, digit pattern from the configuration); a publish loop of up to 8 create(get_new) steps must produce strictly increasing, non-existing versions.",
      "Trusted: vp/reffind.py reference selection. Demo plugin's key name 'version'. No-sibling successor only weakly asserted.",
      "DESIGN.md section 2, C18")

check("C17", "fault_enumeration", "fault injection: Hypothesis-generated write scenarios, exhaustive enumeration of every crash point of each (file-system interposer), plus enumerated sidecar corruptions",
      "For each generated scenario a recording run lists every file-system effect of the write (cross-checked against a tree diff); the operation is re-run from a restored snapshot once per crash point "
      "(before every effect, and at every byte boundary inside every write), process death being simulated by a BaseException; after each crash a fresh Getter must read exactly the old or the new record, "
      "other data and searches must be unchanged and the next set must succeed. Sidecars are corrupted by truncation at every byte, garbage, a directory and an interposed PermissionError.",
      "Exhaustive over the crash points of each explored scenario; scenarios themselves are sampled. Assumes the file system applies the recorded effects in order (no write-back reordering).",
      "DESIGN.md section 2, C17")

check("C20", "exploration", "configuration-level property-based testing: generated configuration packages (Hypothesis + 15 canonical single-dimension Specs), each exercised by the config-generic cores of C01-C08 and C11 in subprocesses",
      "Specs derived from the demo Spec (renamed keys / basetypes / codes / leaf key, inserted or removed levels, other separators, folders, vocabularies, digit patterns, states and mappings, third basetype, third path configuration) "
      "are rendered to complete configuration packages; the sub-checks take their oracles from the reference model built on the loaded raw configuration, so nothing in them names a demo key.",
      "Sub-checks run at reduced example counts (depth is in C01-C11). The generator only emits configurations that follow the documented conventions.",
      "DESIGN.md section 2, C20")

NOT_APPLICABLE = {
}

PENDING_REASON = "check not built yet in this session (see DESIGN.md section 4b build order); no claim is made"

def main():
    props = [json.loads(l) for l in (VERIF / "properties.jsonl").read_text().splitlines() if l.strip()]
    checks = []
    na = []
    for p in props:
        pid = p["id"]
        if pid in CHECKS:
            c = CHECKS[pid]
            checks.append({
                "property_id": pid,
                "quick_cmd": f"./run.sh {pid} --tier quick",
                "thorough_cmd": f"./run.sh {pid} --tier thorough",
                "evidence_file": f"/verif/evidence/{pid}.json",
                "replay_cmd_template": f"./run.sh {pid} --replay {{path}}",
                "engine": "vp",
                "level_claimed": {"category": c["category"], "text": c["text"], "design_ref": c["ref"]},
                "level_note": c["note"],
                "technique": c["technique"],
            })
        else:
            na.append({"property_id": pid, "reason": NOT_APPLICABLE.get(pid, PENDING_REASON)})
    man = {
        "version": 1,
        "setup_cmd": SETUP,
        "hooks": {
            "guard": "SPIL_VERIF",
            "enable": "no source hooks are needed: checks import spil from /repo's working tree with a staged copy of the "
                      "configuration package first on sys.path (vp/env.py); SPIL_VERIF is reserved and unused",
            "baseline_off_cmd": "/verif/baseline.sh",
            "source_commits": [],
            "add_only": True,
        },
        "engines": [{
            "name": "vp", "path": "/verif/vp",
            "serves_properties": sorted(CHECKS),
            "kind_free_text": "Hypothesis property-based / stateful testing and exhaustive enumeration against independent reference models, sharded over 16 processes",
        }],
        "checks": checks,
        "not_applicable": na,
        "notes": "All checks: ./run.sh <id> [--tier quick|thorough] [--replay file]; VERIF_SEED selects the seed. "
                 "Exit 0 held, 1 violation (VIOLATION line + replay file), 2 harness error/inconclusive. "
                 "known_findings.json lists open findings (tolerated only while their stored example still fails) and fixed ones (documentation only).",
    }
    (VERIF / "MANIFEST.json").write_text(json.dumps(man, indent=1) + "\n")
    print(f"MANIFEST.json: {len(checks)} checks, {len(na)} not claimed")

if __name__ == "__main__":
    main()
