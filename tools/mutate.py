#!/usr/bin/env python3
"""
Sensitivity tool: runs checks against a deliberately broken scratch copy of the repository.

  tools/mutate.py --sub spil/sid/sid.py 'OLD' 'NEW' [--sub ...] --checks C03 C14 [--scale 0.3] [--tier quick]
  tools/mutate.py --patch some.diff --checks C07

The copy lives under /dev/shm and is removed afterwards. Evidence files are not touched.
Exit code: 0 if every listed check reported a violation (mutant killed by all), 1 otherwise.
"""
import argparse, os, shutil, subprocess, sys, tempfile
from pathlib import Path

VERIF = Path(__file__).resolve().parent.parent

def main():
    ap = argparse.ArgumentParser()
    ap.add_argument("--sub", nargs=3, action="append", default=[], metavar=("FILE", "OLD", "NEW"))
    ap.add_argument("--patch", action="append", default=[])
    ap.add_argument("--checks", nargs="+", required=True)
    ap.add_argument("--scale", default="0.3")
    ap.add_argument("--tier", default="quick")
    ap.add_argument("--shards", default="8")
    ap.add_argument("--keep", action="store_true")
    a = ap.parse_args()
    root = Path(tempfile.mkdtemp(prefix="spil-mut.", dir="/dev/shm"))
    try:
        repo = root / "repo"
        shutil.copytree("/repo", repo, ignore=shutil.ignore_patterns(".git", "data", "__pycache__", "docs", "*.pyc"))
        for f, old, new in a.sub:
            p = repo / f
            s = p.read_text()
            if s.count(old) < 1:
                print(f"substitution target not found in {f}: {old!r}"); return 2
            p.write_text(s.replace(old, new, 1))
        for pf in a.patch:
            r = subprocess.run(["patch", "-p1", "-s", "-i", str(Path(pf).resolve())], cwd=repo)
            if r.returncode:
                print("patch failed"); return 2
        env = dict(os.environ, SPIL_VERIF_REPO=str(repo), SPIL_VERIF_REPLAY_DIR=str(root / "replay"))
        killed_all = True
        for c in a.checks:
            r = subprocess.run([str(VERIF / "run.sh"), c, "--tier", a.tier, "--scale", a.scale, "--shards", a.shards, "--no-evidence"],
                               env=env, capture_output=True, text=True)
            lines = [l for l in r.stdout.splitlines() if l.startswith(("VIOLATION", "  signature", "  detail", "INCONCLUSIVE", "KNOWN"))]
            print(f"== {c}: exit {r.returncode}  {'KILLED' if r.returncode == 1 else 'SURVIVED' if r.returncode == 0 else 'ERROR'}")
            for l in lines[:9]:
                print("   ", l[:300])
            if r.returncode == 2:
                print(r.stdout[-1500:], r.stderr[-3000:])
            if r.returncode != 1:
                killed_all = False
        return 0 if killed_all else 1
    finally:
        if not a.keep:
            shutil.rmtree(root, ignore_errors=True)

if __name__ == "__main__":
    sys.exit(main())
