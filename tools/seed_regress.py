#!/usr/bin/env python3
"""
Regression of the seeded changes: every stored change under seeded/<id>/ is applied to a scratch copy of /repo's current
tree and the registered quick command of ITS OWN property is run against it (full scale, all shards, no shrinking).
Writes seeded/REGRESS.json  {id: "caught" | "missed" | "error" | "patch-failed"}.   usage: tools/seed_regress.py [ids...]
"""
import json, os, shutil, subprocess, sys, tempfile
from pathlib import Path

VERIF = Path(__file__).resolve().parent.parent


def main():
    ids = sys.argv[1:] or sorted(p.name for p in (VERIF / "seeded").iterdir() if (p / "patch.diff").exists())
    out = VERIF / "seeded" / "REGRESS.json"
    res = json.loads(out.read_text()) if out.exists() else {}
    for sid in ids:
        prop = sid[:3]
        root = Path(tempfile.mkdtemp(prefix="seedrg.", dir="/dev/shm"))
        try:
            repo = root / "repo"
            shutil.copytree("/repo", repo, ignore=shutil.ignore_patterns(".git", "__pycache__", "docs", "*.pyc", "SPIL_PROJECTS"))
            r = subprocess.run(["patch", "-p1", "-s", "-i", str(VERIF / "seeded" / sid / "patch.diff")], cwd=repo, capture_output=True)
            if r.returncode:
                res[sid] = "patch-failed"
            else:
                env = dict(os.environ, SPIL_VERIF_REPO=str(repo), SPIL_VERIF_REPLAY_DIR=str(root / "replay"))
                r = subprocess.run([str(VERIF / "run.sh"), prop, "--tier", "quick", "--no-evidence", "--no-shrink"], env=env, capture_output=True, text=True)
                res[sid] = {0: "missed", 1: "caught", 2: "error"}.get(r.returncode, "?")
            print(sid, res[sid], flush=True)
            out.write_text(json.dumps(res, indent=1, sort_keys=True))
        finally:
            shutil.rmtree(root, ignore_errors=True)


if __name__ == "__main__":
    main()
