#!/usr/bin/env python3
"""
Runs ALL registered checks against a behaviour-preserving change produced by a sub-agent: every check must stay quiet.

  tools/benign_verify.py 03 [--worktree /tmp/benign-03] [--scale 0.5] [--checks C01 ...]
Stores /verif/benign/<id>/{patch.diff, meta.json} with the per-check results.
"""
import argparse, json, os, shutil, subprocess, sys, tempfile
from pathlib import Path

VERIF = Path(__file__).resolve().parent.parent


def main():
    ap = argparse.ArgumentParser()
    ap.add_argument("id")
    ap.add_argument("--worktree", default="")
    ap.add_argument("--scale", default="0.5")
    ap.add_argument("--checks", nargs="*", default=[f"C{i:02d}" for i in range(1, 21)])
    a = ap.parse_args()
    wt = Path(a.worktree or f"/tmp/benign-{a.id}")
    stored = VERIF / "benign" / a.id
    if (wt / "benign_patch.diff").exists():
        patch = (wt / "benign_patch.diff").read_text()
        meta = json.loads((wt / "benign_meta.json").read_text()) if (wt / "benign_meta.json").exists() else {}
    else:
        patch = (stored / "patch.diff").read_text()
        meta = json.loads((stored / "meta.json").read_text()).get("agent_meta", {})
    root = Path(tempfile.mkdtemp(prefix="benignchk.", dir="/tmp"))
    try:
        repo = root / "repo"
        shutil.copytree("/repo", repo, ignore=shutil.ignore_patterns(".git", "__pycache__", "docs", "*.pyc", "SPIL_PROJECTS"))
        (root / "p.diff").write_text(patch)
        rp = subprocess.run(["patch", "-p1", "-s", "-i", str(root / "p.diff")], cwd=repo, capture_output=True, text=True)
        if rp.returncode:
            print("PATCH DOES NOT APPLY", rp.stdout[-500:], rp.stderr[-500:])
            return 2
        (root / "home").mkdir()
        rb = subprocess.run([str(VERIF / "baseline.sh")], env=dict(os.environ, REPO_DIR=str(repo), HOME=str(root / "home")), capture_output=True, text=True)
        print("baseline:", rb.stdout.strip().splitlines()[:3])
        env = dict(os.environ, SPIL_VERIF_REPO=str(repo), SPIL_VERIF_REPLAY_DIR=str(root / "replay"))
        results = {}
        for c in a.checks:
            r = subprocess.run([str(VERIF / "run.sh"), c, "--tier", "quick", "--no-evidence", "--scale", a.scale], env=env, capture_output=True, text=True)
            lines = [l for l in r.stdout.splitlines() if not l.startswith("KNOWN-FINDING")]
            results[c] = {"exit": r.returncode, "verdict": {0: "quiet", 1: "ALARM", 2: "harness-error"}.get(r.returncode, "?")}
            if r.returncode:
                results[c]["output"] = "\n".join(lines)[-1500:] + r.stderr[-800:]
                print(f"  {c}: {results[c]['verdict']}\n" + "\n".join(lines)[-1200:])
            else:
                print(f"  {c}: quiet", flush=True)
        stored.mkdir(parents=True, exist_ok=True)
        (stored / "patch.diff").write_text(patch)
        (stored / "meta.json").write_text(json.dumps({"id": a.id, "agent_meta": meta, "baseline_ok": rb.returncode == 0,
                                                      "repo_commit": subprocess.run(["git", "-C", "/repo", "log", "--format=%h", "-1"], capture_output=True, text=True).stdout.strip(),
                                                      "checks": results}, indent=1))
        return 0 if all(v["exit"] == 0 for v in results.values()) and rb.returncode == 0 else 1
    finally:
        shutil.rmtree(root, ignore_errors=True)


if __name__ == "__main__":
    sys.exit(main())
