"""
Generic Hypothesis driver: collect-then-shrink with signature bucketing.

A check provides
  strategy            Hypothesis strategy producing a JSON-able *case*
  evaluate(case)      -> Outcome   (pure function of the case and the code under test)

`drive` runs the property, treats discrepancies whose signature is listed as an open known finding
as counted-but-tolerated, lets Hypothesis shrink any other, records the shrunk case and goes on
searching behind it (excluding the signature just found) until the example budget is used.
"""
from __future__ import annotations

import hashlib
import json
import os
import time
import traceback
from dataclasses import dataclass, field
from typing import Any, Callable, Dict, List, Optional

import hypothesis
from hypothesis import HealthCheck, Phase, Verbosity, given, settings


class LibraryRaised(Exception):
    pass


@dataclass
class Discrepancy:
    signature: str
    detail: str


@dataclass
class Outcome:
    discrepancies: List[Discrepancy] = field(default_factory=list)
    labels: List[str] = field(default_factory=list)
    nontrivial: bool = False
    key: Any = None          # canonical identity of the case for distinct counting (default: the case)
    sample: Any = None       # what to show in the evidence (default: the case)
    evaluations: int = 1     # how many library evaluations this case stands for

    def add(self, signature: str, detail: str = ""):
        self.discrepancies.append(Discrepancy(signature, str(detail)[:2000]))

    def label(self, *names: str):
        self.labels.extend(names)


class Violation(AssertionError):
    def __init__(self, disc: Discrepancy):
        super().__init__(f"{disc.signature}: {disc.detail}")
        self.disc = disc


def call(fn: Callable, *args, **kwargs):
    """Calls library code; returns (True, value) or (False, exception)."""
    try:
        return True, fn(*args, **kwargs)
    except Exception as e:  # noqa: library exceptions are data for the oracle
        return False, e


def exc_sig(e: BaseException) -> str:
    """Short, stable description of an exception: type and innermost spil/resolva frame."""
    tb = traceback.extract_tb(e.__traceback__)
    where = ""
    for fr in reversed(tb):
        fn = fr.filename.replace("\\", "/")
        if "/spil" in fn or "/resolva" in fn or "_plugins" in fn or "spil_" in fn:
            where = f"{os.path.basename(fn)}:{fr.name}"
            break
    return f"{type(e).__name__}@{where}"


def case_hash(obj) -> int:
    try:
        s = json.dumps(obj, sort_keys=True, default=repr, ensure_ascii=True)
    except Exception:
        s = repr(obj)
    return int.from_bytes(hashlib.blake2b(s.encode("utf8", "surrogatepass"), digest_size=8).digest(), "big")


def debug_logging_case(case) -> bool:
    """One case in 16 (a pure function of the case) is evaluated with the library's logger at DEBUG level."""
    return case_hash(case) % 16 == 3


def run_case(evaluate: Callable[[Any], "Outcome"], case) -> "Outcome":
    if debug_logging_case(case):
        from vp import env as _env
        with _env.debug_logging():
            out = evaluate(case)
        out.labels.append("log-level:DEBUG")
        return out
    return evaluate(case)


class Stats:
    def __init__(self):
        self.evaluations = 0
        self.cases = 0
        self.nontrivial = set()
        self.labels: Dict[str, int] = {}
        self.samples: List[Any] = []
        self.nt_samples: List[Any] = []
        self.known_hits: Dict[str, int] = {}
        self.violations: List[dict] = []
        self.notes: List[str] = []

    def to_dict(self):
        return {
            "evaluations": self.evaluations,
            "cases": self.cases,
            "nontrivial": sorted(self.nontrivial),
            "labels": self.labels,
            "samples": self.samples[:6] + self.nt_samples[:10],
            "known_hits": self.known_hits,
            "violations": self.violations,
            "notes": self.notes,
        }

    def record(self, case, out: Outcome):
        self.cases += 1
        self.evaluations += max(1, out.evaluations)
        for l in out.labels:
            self.labels[l] = self.labels.get(l, 0) + 1
        if out.nontrivial:
            self.nontrivial.add(case_hash(out.key if out.key is not None else case))
            if len(self.nt_samples) < 10 and self.cases % 7 == 0 or len(self.nt_samples) < 3:
                self.nt_samples.append(out.sample if out.sample is not None else case)
        elif len(self.samples) < 6:
            self.samples.append(out.sample if out.sample is not None else case)


def drive(ctx, name: str, strategy, evaluate: Callable[[Any], Outcome], max_examples: int,
          stats: Optional[Stats] = None, max_root_causes: int = 4, shrink: bool = True,
          seed_offset: int = 0, reset="default") -> Stats:
    """
    ctx: worker context (seed, shard, known signatures ...)
    """
    stats = stats or Stats()
    if getattr(ctx, "options", {}).get("shrink") is False:
        shrink = False
    if reset == "default":
        from vp import env as _env
        reset = _env.reset_caches
    excluded = set(ctx.known_signatures)
    remaining = max_examples
    attempt = 0
    state = {"last_failure": None, "recording": True}

    while remaining > 0 and attempt <= max_root_causes:
        budget = remaining
        counter = {"n": 0}

        def prop(case):
            if reset is not None:
                reset()
            out = run_case(evaluate, case)
            if state["recording"]:
                counter["n"] += 1
                stats.record(case, out)
            unknown = None
            for d in out.discrepancies:
                if d.signature in excluded:
                    if state["recording"]:
                        stats.known_hits[d.signature] = stats.known_hits.get(d.signature, 0) + 1
                elif unknown is None:
                    unknown = d
            if unknown is not None:
                state["last_failure"] = {"case": case, "signature": unknown.signature, "detail": unknown.detail}
                state["recording"] = False   # the shrink phase re-executes variants: do not count them
                raise Violation(unknown)

        phases = [Phase.generate] + ([Phase.shrink] if shrink else [])
        test = given(strategy)(prop)
        test = hypothesis.seed(ctx.seed * 100003 + ctx.shard * 101 + attempt * 7 + seed_offset)(test)
        test = settings(
            max_examples=budget, database=None, deadline=None, derandomize=False,
            report_multiple_bugs=False, suppress_health_check=list(HealthCheck),
            phases=phases, verbosity=Verbosity.quiet, print_blob=False,
        )(test)
        state["recording"] = True
        state["last_failure"] = None
        t0 = time.time()
        try:
            test()
        except Violation:
            lf = state["last_failure"]
            stats.violations.append({
                "check": name, "signature": lf["signature"], "detail": lf["detail"], "case": lf["case"],
                "shrunk": shrink, "shrink_s": round(time.time() - t0, 2),
            })
            excluded.add(lf["signature"])
            remaining -= max(1, counter["n"])
            attempt += 1
            continue
        except hypothesis.errors.Flaky:
            # A violation was observed, but re-executing the same case gave another outcome: state of the code
            # under test leaked between executions. The observed violation stands; it could not be shrunk.
            lf = state["last_failure"]
            if lf is None:
                raise
            stats.violations.append({
                "check": name, "signature": lf["signature"], "detail": lf["detail"] + "  [not reproducible by re-execution in the same process: state leaked between cases]",
                "case": lf["case"], "shrunk": False, "shrink_s": round(time.time() - t0, 2),
            })
            excluded.add(lf["signature"])
            remaining -= max(1, counter["n"])
            attempt += 1
            continue
        except hypothesis.errors.Unsatisfiable:
            stats.notes.append(f"{name}: strategy unsatisfiable")
            break
        remaining = 0
    return stats


def enumerate_cases(ctx, name: str, iterable, evaluate: Callable[[Any], Outcome], stats: Optional[Stats] = None,
                    max_violations: int = 5) -> Stats:
    """Exhaustive / listed cases (no Hypothesis): first case per unknown signature is kept as the replay."""
    stats = stats or Stats()
    excluded = set(ctx.known_signatures)
    from vp import env as _env
    for case in iterable:
        _env.reset_caches()
        out = run_case(evaluate, case)
        stats.record(case, out)
        for d in out.discrepancies:
            if d.signature in excluded:
                stats.known_hits[d.signature] = stats.known_hits.get(d.signature, 0) + 1
            else:
                excluded.add(d.signature)
                stats.violations.append({"check": name, "signature": d.signature, "detail": d.detail,
                                         "case": case, "shrunk": False})
        if len(stats.violations) >= max_violations:
            stats.notes.append(f"{name}: enumeration stopped after {max_violations} distinct violations")
            break
    return stats
