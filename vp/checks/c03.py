"""
C03 - parent, get_as and '/' navigate one consistent hierarchy.
"""
from __future__ import annotations

from hypothesis import strategies as st

from vp import confmodel, gens
from vp.pbt import Outcome, Stats, call, drive, exc_sig

PROPERTY = "C03"
LEVEL = "exploration"
SHARDS = {"quick": 16, "thorough": 16}
RULE = ("typed Sids of every configured type (concrete and with '*' / '>' values, natural and uri-forced to a type sharing the "
        "key set) and untyped junk strings; for every key k: get_as(k) fields/string prefix, parent, parent chain length, "
        "parent / last value (at every level of the parent walk, value as string and as Sid object), keytype, basetype, len; untyped: navigations return the empty Sid. "
        "non-trivial = search Sid, or a type on a side branch (key set not a prefix of its basetype's deepest type), or >= 5 fields, or untyped; "
        "distinct = distinct uri")
ASSUMPTIONS = [
    "'parent / last-value == sid' is demanded only for Sids whose natural typing equals their type (the '/' operator re-resolves a string by documentation)",
    "the type of get_as(k) is not pinned by the statement: only typed-ness, fields and string are asserted",
]


def _model():
    return confmodel.load().sid


@st.composite
def cases(draw):
    m = _model()
    kind = draw(st.sampled_from(["typed", "typed", "typed", "forced", "untyped"]))
    if kind == "untyped":
        n = draw(st.integers(0, 10))
        segs = [draw(st.one_of(st.sampled_from(gens.JUNK_SEGMENTS), gens.free_name(True))) for _ in range(n)]
        return {"uri": "/".join(segs).replace("?", "").replace(":", ""), "kind": kind, "x": draw(gens.free_name(True))}
    t, f = draw(gens.typed_fields(m, search_p=0.25, wide=True))
    emptied = None
    if draw(st.integers(0, 7)) == 0:
        # a key that is present with an EMPTY value (free patterns accept it; get_with documents '' as a value)
        cands = [k for k in m.keys(t) if m.accepts_value(t, k, "")]
        if cands:
            emptied = draw(st.sampled_from(cands))
            f = dict(f)
            f[emptied] = ""
    s = "/".join(f[k] for k in m.keys(t))
    if emptied is not None:
        if m.type_first(s)[0] is None:
            emptied = None
            s = "/".join(x or "x" for x in s.split("/"))
        else:
            return {"uri": s, "kind": kind if kind != "forced" else "typed", "x": "x", "via": "string", "emptied": emptied}
    if kind == "forced":
        sibs = [x for x in m.types if set(m.keys(x)) == set(m.keys(t))]
        return {"uri": draw(st.sampled_from(sibs)) + ":" + s, "kind": kind, "x": "x"}
    # the same Sid reached through another constructor: the hierarchy must not depend on how a Sid was built
    via = draw(st.sampled_from(["string", "string", "fields", "query", "get_with", "path", "div"]))
    return {"uri": s, "kind": kind, "x": "x", "via": via, "perm": draw(st.integers(0, 10 ** 6))}


def rebuild(sid, via, perm):
    """The same Sid obtained through another constructor (None when that constructor does not apply)."""
    import random
    from spil import Sid
    model = confmodel.load()
    fields = sid.fields
    keys = list(fields)
    if via == "fields":
        random.Random(perm).shuffle(keys)
        return Sid(fields={k: fields[k] for k in keys})
    if via == "query":
        if len(keys) < 2:
            return Sid(query=sid.as_query())
        cut = 1 + perm % (len(keys) - 1)
        base = "/".join(fields[k] for k in keys[:cut])
        q = "&".join(f"{k}={fields[k]}" for k in reversed(keys[cut:]))
        return Sid(base + "?" + q)
    if via == "get_with":
        if len(keys) < 2:
            return None
        cut = 1 + perm % (len(keys) - 1)
        base = Sid("/".join(fields[k] for k in keys[:cut]))
        return base.get_with(**{k: fields[k] for k in reversed(keys[cut:])}) if base else None
    if via == "div":
        if len(keys) < 2:
            return None
        cur = Sid(fields[keys[0]])
        for k in keys[1:]:
            cur = cur / fields[k]
        return cur
    if via == "path":
        if sid.is_search():
            return None
        p = sid.path()
        return Sid(path=p) if p else None
    return None


def evaluate(case) -> Outcome:
    from spil import Sid
    m = _model()
    text = case["uri"]
    out = Outcome(key=text, sample=text)
    ok, sid = call(Sid, text)
    if not ok:
        out.add(f"C03/raises/Sid/{exc_sig(sid)}", f"Sid({text!r}) raised {sid!r}")
        return out
    empty = Sid()
    via = case.get("via", "string")
    if sid and via != "string":
        ok, alt = call(rebuild, sid, via, case.get("perm", 0))
        if not ok:
            out.add(f"C03/via-{via}/raises/{exc_sig(alt)}", f"rebuilding {sid!r} via {via} raised {alt!r}")
            return out
        if alt is not None:
            if not alt or alt != sid:
                out.label(f"via-{via}:other-sid")      # e.g. values with URL metacharacters in a query: not this check's concern
            else:
                out.label("via:" + via)
                sid = alt

    if not sid:
        out.label("untyped")
        out.nontrivial = True
        checks = {
            "parent": lambda: sid.parent,
            "get_as": lambda: sid.get_as(case.get("x", "x")),
            "get_as_known_key": lambda: sid.get_as(m.keys(m.types[0])[0]),
        }
        for name, fn in checks.items():
            ok, r = call(fn)
            if not ok:
                out.add(f"C03/untyped/{name}/raises/{exc_sig(r)}", f"{name} of untyped Sid({text!r}) raised {r!r}")
            elif not isinstance(r, Sid) or r != empty or r or str(r) != "":
                out.add(f"C03/untyped/{name}/not-empty", f"{name} of untyped Sid({text!r}) gave {r!r}")
        for name, fn, exp in (("keytype", lambda: sid.keytype, None), ("basetype", lambda: sid.basetype, None),
                              ("len", lambda: len(sid), 0)):
            ok, r = call(fn)
            if not ok:
                out.add(f"C03/untyped/{name}/raises/{exc_sig(r)}", f"{name} of untyped Sid({text!r}) raised {r!r}")
            elif r != exp:
                out.add(f"C03/untyped/{name}/wrong", f"{name} of untyped Sid({text!r}) is {r!r}, expected {exp!r}")
        ok, r = call(lambda: sid / case.get("x", "x"))
        if not ok:
            out.add(f"C03/untyped/div/raises/{exc_sig(r)}", f"Sid({text!r}) / x raised {r!r}")
        return out

    t = sid.type
    if t not in m.parsed:
        out.add("C03/unknown-type", f"{sid!r} has a type the configuration does not define")
        return out
    keys = m.keys(t)
    fields = sid.fields
    segs = str(sid).split("/")
    natural = (m.type_first(str(sid))[0] == t)
    out.label("type:" + t, "natural" if natural else "forced")
    vals = list(fields.values())
    is_search = any(v in ("*", ">") for v in vals)
    deepest = max((x for x in m.types if m.basetype(x) == m.basetype(t)), key=lambda x: len(m.keys(x)))
    side = keys != m.keys(deepest)[:len(keys)]
    out.nontrivial = is_search or side or len(keys) >= 5 or bool(case.get("emptied"))
    if case.get("emptied"):
        out.label("empty-value")
    if is_search:
        out.label("search")
    if side:
        out.label("side-branch")

    if list(fields) != keys:
        out.add("C03/fields-not-in-template-order", f"{sid!r}: {list(fields)} vs {keys}")
        return out

    # keytype / basetype / len
    for name, fn, exp in (("keytype", lambda: sid.keytype, keys[-1]), ("basetype", lambda: sid.basetype, t.split("__")[0]),
                          ("len", lambda: len(sid), len(keys))):
        ok, r = call(fn)
        if not ok:
            out.add(f"C03/{name}/raises/{exc_sig(r)}", f"{name} of {sid!r} raised {r!r}")
        elif r != exp:
            out.add(f"C03/{name}/wrong", f"{name} of {sid!r} is {r!r}, expected {exp!r}")

    # get_as(k) for every key
    for i, k in enumerate(keys):
        ok, g = call(sid.get_as, k)
        if not ok:
            out.add(f"C03/get_as/raises/{exc_sig(g)}", f"{sid!r}.get_as({k!r}) raised {g!r}")
            continue
        exp_fields = {kk: fields[kk] for kk in keys[: i + 1]}
        exp_str = "/".join(segs[: i + 1])
        if not isinstance(g, Sid) or not g:
            out.add("C03/get_as/untyped", f"{sid!r}.get_as({k!r}) gave untyped {g!r}; expected fields {exp_fields}")
            continue
        if g.fields != exp_fields or list(g.fields) != keys[: i + 1]:
            out.add("C03/get_as/wrong-fields", f"{sid!r}.get_as({k!r}) -> {g!r} fields {g.fields}, expected {exp_fields}")
        if str(g) != exp_str:
            out.add("C03/get_as/wrong-string", f"{sid!r}.get_as({k!r}) -> {str(g)!r}, expected {exp_str!r}")
    out.evaluations = len(keys) + 1

    # parent
    ok, p = call(lambda: sid.parent)
    if not ok:
        out.add(f"C03/parent/raises/{exc_sig(p)}", f"{sid!r}.parent raised {p!r}")
        return out
    if len(keys) == 1:
        if p != sid or p.fields != fields or p.type != t:
            out.add("C03/parent/one-field-not-own-parent", f"{sid!r}.parent is {p!r}")
    else:
        ok, g = call(sid.get_as, keys[-2])
        if ok and (p != g or p.type != g.type or p.fields != g.fields):
            out.add("C03/parent/not-get_as-second-last", f"{sid!r}.parent {p!r} != get_as({keys[-2]!r}) {g!r}")
        ok, n = call(len, p)
        if not ok or n != len(keys) - 1:
            out.add("C03/parent/len", f"len({sid!r}.parent) is {n!r}, expected {len(keys) - 1}")
        if natural and p:
            ok, back = call(lambda: p / fields[keys[-1]])
            if not ok:
                out.add(f"C03/div/raises/{exc_sig(back)}", f"{p!r} / {fields[keys[-1]]!r} raised {back!r}")
            elif back != sid or back.type != t or back.fields != fields:
                out.add("C03/div/parent-div-last-not-sid", f"{p!r} / {fields[keys[-1]]!r} gave {back!r}, expected {sid!r}")

    # walking parents reaches a one-field Sid in exactly len-1 steps
    cur, steps = sid, 0
    while steps <= len(keys) + 2:
        ok, n = call(len, cur)
        if not ok or n <= 1:
            break
        ok, nxt = call(lambda: cur.parent)
        if not ok:
            out.add(f"C03/parent-walk/raises/{exc_sig(nxt)}", f"walking parents of {sid!r} raised {nxt!r}")
            return out
        # ... and at every level of the walk, parent / last value leads back (value given as a string and as a Sid object)
        cs, cf, ct = str(cur), cur.fields, cur.type
        if nxt and cf and m.type_first(cs)[0] == ct and "?" not in cs:
            last = list(cf.values())[-1]
            for form, operand in (("str", last), ("sid-object", Sid(last))):
                okb, back = call(lambda: nxt / operand)
                if not okb:
                    out.add(f"C03/div/raises/{exc_sig(back)}", f"{nxt!r} / {operand!r} raised {back!r}")
                elif back != cur or back.type != ct or back.fields != cf:
                    out.add(f"C03/div/walk/{form}/parent-div-last-not-sid", f"{nxt!r} / {operand!r} gave {back!r}, expected {cur!r}")
        cur = nxt
        steps += 1
    ok, n = call(len, cur)
    if not ok or n != 1 or steps != len(keys) - 1:
        out.add("C03/parent-walk/length", f"walking parents of {sid!r}: {steps} steps, ended at {cur!r} (len {n!r}); expected {len(keys) - 1} steps to a one-field Sid")
    else:
        ok, pp = call(lambda: cur.parent)
        if not ok or pp != cur:
            out.add("C03/parent-walk/root-not-own-parent", f"root {cur!r}.parent is {pp!r}")
    return out


EVALUATORS = {"hierarchy": evaluate}


def run(ctx) -> Stats:
    n = int((2500 if ctx.quick else 50000) * ctx.options.get("scale", 1.0))
    return drive(ctx, "hierarchy", cases(), evaluate, max_examples=n)
