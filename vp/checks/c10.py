"""
C10 - search results obey the algebra of the search syntax (metamorphic, implementation against itself).
"""
from __future__ import annotations

from hypothesis import strategies as st

from vp import confmodel, gens, refsearch, reffind, tree
from vp.pbt import Outcome, Stats, call, drive, exc_sig

PROPERTY = "C10"
LEVEL = "exploration"
SHARDS = {"quick": 16, "thorough": 16}
RULE = ("(universe, search s, rewrite rule, derived searches): R1 split one ',' list into its alternatives; R2 alias -> member extensions "
        "(last segment or leaf-key filter); R3 '/**' -> n = 0..max-depth explicit '/*' levels, results restricted to leaf types; R4 append k=v "
        "on a key that every searched type has and that s leaves open ('*'); R5 replace one '*' by a literal (present or absent value). "
        "Each relation is checked between the implementation's own result sets on FindInList, FindInPaths and FindInAll over the same generated "
        "universe; plus: no duplicates, every result typed and glob-matching a reference form of s. '>' excluded. One case in five (R1, R2, R4, R5) writes "
        "the search and its derived searches as uris ('type:string'). "
        "non-trivial = both sides non-empty on at least one finder; distinct = (universe, s, rule)")
ASSUMPTIONS = [
    "R4 / R5 only rewrite positions that s leaves open ('*'): overriding a concrete value by a filter is not an algebraic identity",
    "filters on a narrowing key are not generated (see C07)",
    "result sets are compared as sets of strings; field values are read from the returned Sids",
]

_sources = {}


def _m():
    return confmodel.load()


def sources(model):
    if "s" not in _sources:
        _sources["s"] = reffind.probe_sources(model)
    return _sources["s"]


@st.composite
def cases(draw):
    model = _m()
    m = model.sid
    pm = model.paths[model.default_config]
    ptypes = [t for t in m.types if pm.has_path(t)]
    ents = draw(gens.universe(m, types=ptypes, min_size=3, max_size=16))
    t, f = ents[draw(st.integers(0, len(ents) - 1))]
    if draw(st.integers(0, 9)) < 3:
        anc = gens.ancestors(m, t, f)
        if anc:
            t, f = anc[draw(st.integers(0, len(anc) - 1))]
        # constants-backed deeper level (e.g. a state under a version)
        longer = [x for x in m.types if m.basetype(x) == m.basetype(t) and m.keys(x)[:len(m.keys(t))] == m.keys(t)
                  and len(m.keys(x)) == len(m.keys(t)) + 1]
        if longer and draw(st.booleans()):
            x = draw(st.sampled_from(longer))
            k = m.keys(x)[-1]
            f = dict(f, **{k: draw(gens.entity_value(m, x, k))})
            t = x
    keys = m.keys(t)
    segs = [f[k] for k in keys]
    rule = draw(st.sampled_from(["R1", "R2", "R3", "R4", "R5"]))
    star_p = draw(st.sampled_from([35, 35, 10, 0])) if rule in ("R4", "R5") else draw(st.sampled_from([35, 35, 0]))
    for i in range(len(keys)):
        if draw(st.integers(0, 99)) < star_p:
            segs[i] = "*"
    nk = refsearch.narrowing_keys(m)
    info = {}
    s = None
    derived = []
    if rule == "R1":
        i = draw(st.integers(0, len(keys) - 1))
        free_at = [j for j, kk in enumerate(keys) if m.specs[(t, kk)].free]
        mixed = bool(free_at) and draw(st.integers(0, 3)) == 0
        if mixed:
            # a list that mixes a literal with an in-segment pattern, every other segment literal: one unfolded form has a
            # wildcard, the other has none
            i = draw(st.sampled_from(free_at))
            segs = [f[kk] for kk in keys]
        spec = m.specs[(t, keys[i])]
        v0 = f[keys[i]]
        patterns = [v0[:1] + "*", "*" + v0[-1:], "x*", "y*", "zz*", "!*", "+*", "A*"] if spec.free else ["zz"]
        alts = [v0] + [draw(st.one_of(gens.entity_value(m, t, keys[i]), st.just("zz"), st.sampled_from(patterns), st.just("*")))
                       for _ in range(draw(st.integers(1, 2)))]
        if mixed:
            alts.append(draw(st.sampled_from(patterns)))
        alts = list(draw(st.permutations(list(dict.fromkeys(alts)))))   # the existing value is not always the first alternative
        sep = draw(st.sampled_from([",", ", "]))
        base = list(segs)
        base[i] = sep.join(alts)
        s = "/".join(base)
        for a in alts:
            d = list(segs)
            d[i] = a
            derived.append("/".join(d))
    elif rule == "R2":
        aliases = [a for a in gens.all_aliases(m) if m.accepts(t, [f[k] for k in keys[:-1]] + [a])]
        if not aliases or not m.is_leaf_type(t):
            rule = "R5"
        else:
            a = draw(st.sampled_from(aliases))
            members = m.extension_alias[a]
            if draw(st.booleans()):
                base = list(segs)
                base[-1] = a
                s = "/".join(base)
                for mem in members:
                    d = list(segs)
                    d[-1] = mem
                    derived.append("/".join(d))
            else:
                base = list(segs)
                base[-1] = "*"
                s = "/".join(base) + f"?{keys[-1]}={a}"
                for mem in members:
                    derived.append("/".join(base) + f"?{keys[-1]}={mem}")
    if rule == "R3":
        a = draw(st.integers(1, len(segs)))
        b = draw(st.integers(a, len(segs)))
        base = segs[:a] + ["**"] + segs[b:]
        s = "/".join(base)
        maxd = max(len(m.keys(x)) for x in m.types)
        for n in range(0, maxd + 1):
            derived.append("/".join(segs[:a] + ["*"] * n + segs[b:]))
    elif rule == "R4":
        cand = [i for i, k in enumerate(keys) if k not in nk]
        if not cand:
            rule = "R5"
        else:
            i = draw(st.sampled_from(cand))
            base = list(segs)
            base[i] = "*"
            s = "/".join(base)
            v = draw(st.one_of(st.just(f[keys[i]]), gens.entity_value(m, t, keys[i])))
            if any(c in v for c in "%+&=#;?~ ,"):
                rule = "R5"    # URL metacharacters are outside the query syntax's value domain
            else:
                info = {"key": keys[i], "value": v}
                derived = [s + f"?{keys[i]}={v}"]
    if rule == "R5":
        i = draw(st.integers(0, len(keys) - 1))
        base = list(segs)
        base[i] = "*"
        s = "/".join(base)
        v = draw(st.one_of(st.just(f[keys[i]]), gens.entity_value(m, t, keys[i]), st.just("zz")))
        d = list(base)
        d[i] = v
        derived = ["/".join(d)]
        info = {"index": i, "value": v}
    # the same search written as a uri ('type:string'): forces the one type, everything else as before
    force = t if rule != "R3" and draw(st.integers(0, 4)) == 0 else None
    return {"entities": [[tt, ff] for tt, ff in ents], "rule": rule, "s": s, "derived": derived, "info": info, "force": force}


def evaluate(case) -> Outcome:
    from spil import FindInAll, FindInList, FindInPaths, Sid, SpilException
    model = _m()
    m = model.sid
    cname = model.default_config
    ents = [(t, f) for t, f in case["entities"]]
    tree.reset(model)
    tree.materialise(model, cname, ents)
    existing = tree.existing_set(model, cname, ents)
    L = sorted(e[2] for e in existing.values())
    rule, s, derived, info = case["rule"], case["s"], case["derived"], case.get("info", {})
    out = Outcome(key=[L, s, rule], sample={"rule": rule, "s": s, "derived": derived[:4], "entities": [m.render(t, f) for t, f in ents][:6]})
    out.label("rule:" + rule)
    out.evaluations = 0
    try:
        forms = refsearch.unfold(m, s)
    except refsearch.RefSpilException:
        forms = None
        out.label("ref-spil-exception")
    force = case.get("force")
    if force:
        out.label("uri-forced-search")
        if forms is not None:
            forms = [fm for fm in forms if force in fm.alt_types]
        s = force + ":" + s
        derived = [force + ":" + d for d in derived]

    finders = {"list": lambda: FindInList(list(L)), "paths": lambda: FindInPaths(cname), "all": lambda: FindInAll()}
    leaf_names = {v for v in m.leaf_keys.values() if v}

    def run(name, search):
        ok, got = call(lambda: list(finders[name]().find(search)))
        out.evaluations += 1
        if not ok:
            if isinstance(got, SpilException):
                return "spil", None
            out.add(f"C10/{name}/raises/{exc_sig(got)}", f"{name}.find({search!r}) raised {got!r}; data {L}")
            return "error", None
        return "ok", got

    for name in finders:
        st0, base = run(name, s)
        if st0 != "ok":
            if st0 == "spil":
                out.label("spil-exception")
            continue
        bstr = [str(x) for x in base]
        if len(set(bstr)) != len(bstr):
            out.add(f"C10/{name}/duplicates", f"{name}.find({s!r}) -> {bstr}")
        for x in base:
            if not isinstance(x, Sid) or not x:
                out.add(f"C10/{name}/untyped-result", f"{name}.find({s!r}) yields {x!r}")
            elif forms is not None and not any(refsearch.glob_match(fm.string, str(x)) for fm in forms):
                out.add(f"C10/{name}/result-does-not-match-search", f"{name}.find({s!r}) yields {x!r}; forms {[fm.uri for fm in forms]}")
        dres = []
        bad = False
        for d in derived:
            st1, r = run(name, d)
            if st1 == "ok":
                dres.append(r)
            elif st1 == "spil":
                dres.append([])
            else:
                bad = True
        if bad:
            continue
        base_set = set(bstr)
        if rule in ("R1", "R2"):
            union = set().union(*[{str(x) for x in r} for r in dres]) if dres else set()
            if union != base_set:
                out.add(f"C10/{rule}/{name}/union-differs", f"{name}: find({s!r}) = {sorted(base_set)}\n union of {derived} = {sorted(union)}\n data {L}")
            lhs, rhs = base_set, union
        elif rule == "R3":
            union = set()
            for r in dres:
                for x in r:
                    if x.keytype in leaf_names:
                        union.add(str(x))
            if union != base_set:
                out.add(f"C10/R3/{name}/expansion-differs", f"{name}: find({s!r}) = {sorted(base_set)}\n union over explicit levels (leaf types) = {sorted(union)}\n data {L}")
            lhs, rhs = base_set, union
        elif rule == "R4":
            k, v = info["key"], info["value"]
            if forms is None or any(k not in fm.fields for fm in forms):
                out.label("R4:key-not-in-every-searched-type")
                continue
            expect = {str(x) for x in base if x.get(k) == v}
            gotd = {str(x) for x in dres[0]}
            if gotd != expect:
                out.add(f"C10/R4/{name}/filter-differs", f"{name}: find({derived[0]!r}) = {sorted(gotd)}\n find({s!r}) with {k}=={v!r}: {sorted(expect)}\n data {L}")
            lhs, rhs = gotd, expect
        else:
            i, v = info["index"], info["value"]
            expect = {x for x in base_set if x.split("/")[i] == v}
            gotd = {str(x) for x in dres[0]}
            if gotd != expect:
                sig = f"C10/R5/{name}/literal-differs"
                out.add(sig, f"{name}: find({derived[0]!r}) = {sorted(gotd)}\n find({s!r}) with segment {i} == {v!r}: {sorted(expect)}\n data {L}")
            lhs, rhs = gotd, expect
        if lhs and rhs:
            out.nontrivial = True
            out.label("nonempty:" + name)
    out.evaluations = max(1, out.evaluations)
    return out


EVALUATORS = {"algebra": evaluate}


def run(ctx) -> Stats:
    n = int((500 if ctx.quick else 10000) * ctx.options.get("scale", 1.0))
    return drive(ctx, "algebra", cases(), evaluate, max_examples=n)
