"""
C17 - an interrupted attribute write leaves the old or the new data, never a ruin (fault enumeration).
"""
from __future__ import annotations

import json
import os
from pathlib import Path

from hypothesis import strategies as st

from vp import confmodel, fsfault, gens, tree
from vp.pbt import Outcome, Stats, call, drive, exc_sig

PROPERTY = "C17"
LEVEL = "fault_enumeration"
SHARDS = {"quick": 16, "thorough": 16}
RULE = ("scenarios from Hypothesis (entity = file or folder, sometimes named so that the sidecar's file name is at or just below 255 characters; default or another path configuration; previous data or none; new data; set (keywords only, or attribute / value plus keywords) / update / create-with-data; a second "
        "entity with its own data); for EVERY scenario ALL crash points are enumerated: a recording run through a file-system interposer lists "
        "every effect of the operation (creating / truncating open, each flushed write with its byte length, os.replace / rename, mkdir, touch); "
        "the operation is then re-run from the restored snapshot once per crash point - before each effect and inside every write at each byte "
        "boundary - raising a BaseException that simulates process death (nothing buffered is flushed). After each crash a fresh Getter must "
        "read exactly the old or exactly the new record, the other entity's record and the search results are unchanged, and the next set (adding a key, or - half of the scenarios - "
        "replacing a value by a shorter one) succeeds and reads back. Corruption: the sidecar is truncated at every byte, emptied, replaced by a directory, filled with garbage and "
        "made unreadable; that Sid must read as {'sid': ...} and searches / other Sids' reads must not fail. "
        "evaluations = crash points + corruptions executed; non-trivial = crash point strictly inside the effects of an overwrite, or a "
        "corruption; distinct = (scenario, crash point)")
ASSUMPTIONS = [
    "process death is simulated by a BaseException raised at the crash point inside the interposed call; data still buffered in the dying process is discarded",
    "the recording run is cross-checked against a before / after tree diff: an unexplained change is a harness error",
    "the file system itself is assumed to apply each recorded effect atomically and in order (no reordering of write-back)",
    "unreadable files are simulated by an interposed PermissionError (the sandbox runs as root)",
]


def _m():
    return confmodel.load()


small_json = st.one_of(st.integers(0, 999), st.text(alphabet="abc é\"\\", max_size=6), st.text(alphabet="ab", min_size=20, max_size=40), st.none(), st.booleans(),
                       st.lists(st.integers(0, 9), max_size=3))
KEYS = ["comment", "author", "k1", "k2"]
data_dict = st.dictionaries(st.sampled_from(KEYS), small_json, min_size=1, max_size=3)


@st.composite
def cases(draw):
    model = _m()
    m = model.sid
    pm = model.paths[model.default_config]
    ptypes = [t for t in m.types if pm.has_path(t)]
    ents = draw(gens.universe(m, types=ptypes, min_size=2, max_size=4, names=["x", "y", "x.b"]))
    e = draw(st.integers(0, len(ents) - 1))
    o = draw(st.integers(0, len(ents) - 1))
    op = draw(st.sampled_from(["set", "set", "set_attr", "update", "create_data"]))
    prev = draw(st.one_of(st.none(), data_dict)) if op != "create_data" else None
    return {"entities": [[t, f] for t, f in ents], "e": e, "o": o, "op": op, "prev": prev, "new": draw(data_dict),
            "other": draw(data_dict), "mode": draw(st.sampled_from(["crash", "crash", "crash", "corrupt"])),
            "next": draw(st.sampled_from(["grow", "shrink"])),
            "longname": draw(st.sampled_from([None] * 9 + [0, 0, 1, 3, 4, 5])),
            "config": draw(st.sampled_from([None, None, None] + [c for c in model.paths if c != model.default_config]))}


def sidecar(model, path):
    return model.data_mod.get_data_json_path(Path(path))


def evaluate(case) -> Outcome:
    from spil import FindInPaths, GetFromPaths, SpilException, WriteToPaths
    model = _m()
    m = model.sid
    cname = case.get("config") or model.default_config
    pm = model.paths[cname]
    root = pm.root()
    ents = [(t, f) for t, f in case["entities"]]
    te, fe = ents[case["e"] % len(ents)]
    to, fo = ents[case["o"] % len(ents)]
    if case.get("longname") is not None:
        # a free value so long that the sidecar's file name is AT (or 1, 3, 4 characters below) the file-name limit of 255:
        # whatever temporary name the writer derives from it is then too long, or just fits
        fk = [k for k in m.keys(te) if m.specs[(te, k)].free]
        if fk:
            k = fk[-1]
            n1 = len(sidecar(model, pm.render(te, dict(fe, **{k: "x"}))).name)
            n2 = len(sidecar(model, pm.render(te, dict(fe, **{k: "xx"}))).name)
            slope = n2 - n1
            if slope > 0:
                want = 255 - int(case["longname"])
                n = 1 + (want - n1) // slope
                longv = "x" * max(1, n)
                if len(os.path.basename(pm.render(te, dict(fe, **{k: longv})))) <= 255 and \
                        len(sidecar(model, pm.render(te, dict(fe, **{k: longv}))).name) == want:
                    old = (te, fe)
                    fe = dict(fe, **{k: longv})
                    ents = [(te, fe) if x == old else x for x in ents]
    se, so = m.render(te, fe), m.render(to, fo)
    pe, po = pm.render(te, fe), pm.render(to, fo)
    op = case["op"]
    out = Outcome(sample={"entity": se, "other": so, "op": op, "prev": case["prev"], "new": case["new"], "mode": case["mode"]})
    out.evaluations = 0
    tree.reset(model)
    initial = [x for i, x in enumerate(ents) if not (op == "create_data" and x == (te, fe))]
    # for create_data nothing of the entity's own path may pre-exist (descendants would create it)
    if op == "create_data":
        initial = [x for x in initial if not (pm.render(*x) or "").startswith(pe)]
    tree.materialise(model, cname, initial)
    same_sidecar = sidecar(model, pe) == sidecar(model, po)
    other_exists = (to, fo) in initial and (to, fo) != (te, fe) and not same_sidecar
    if other_exists:
        sidecar(model, po).write_text(json.dumps(case["other"]))
    if case["prev"] is not None and op != "create_data":
        sidecar(model, pe).write_text(json.dumps(case["prev"], indent=4))
    S0 = tree.snapshot(root)
    search = "/".join(se.split("/")[:-1] + ["*"]) if "/" in se else "*"

    def read(s):
        return call(lambda: json.loads(json.dumps(GetFromPaths(cname).get_data(s), default=str)))

    def find():
        return call(lambda: sorted(str(x) for x in FindInPaths(cname).find(search)))

    old_rec = dict(case["prev"] or {}, sid=se)
    new_rec = dict(case["prev"] or {})
    new_rec.update(json.loads(json.dumps(case["new"], default=str)))
    new_rec["sid"] = se
    other_rec = dict(case["other"], sid=so) if other_exists else None
    ok, found_before = find()

    def do_op(writer):
        if op == "set":
            return writer.set(se, **dict(case["new"]))
        if op == "set_attr":
            # one attribute / value pair and the remaining pairs as keywords: still ONE write for the reader
            items = list(case["new"].items())
            return writer.set(se, items[0][0], items[0][1], **dict(items[1:]))
        if op == "update":
            return writer.update(se, dict(case["new"]))
        return writer.create(se, data=dict(case["new"]))

    if case["mode"] == "corrupt":
        return corrupt(case, out, model, cname, root, se, so, pe, other_rec, other_exists, read, find, found_before, S0)

    # ---- recording run (from exactly the state every crash run starts from)
    tree.restore(root, S0)
    sess = fsfault.Session()
    with fsfault.interpose(sess):
        ok, r = call(lambda: do_op(WriteToPaths(cname)))
    if not ok:
        import errno
        if case.get("longname") is not None and isinstance(r, OSError) and r.errno == errno.ENAMETOOLONG:
            # refused as a whole because a derived file name is too long: nothing may have changed
            if op != "create_data" and tree.snapshot(root) != S0:   # (create may have made the entity before its data was refused)
                out.add("C17/name-too-long/changed-tree", f"{op}({se[:60]!r}...) raised {r!r} and changed the tree")
            okr, rec = read(se)
            if not okr or rec != old_rec:
                out.add("C17/name-too-long/data-changed", f"{op} raised {r!r}; get_data = {rec}, expected the previous data {old_rec}")
            out.label("name-too-long-refused")
            return out
        out.add(f"C17/complete-run/raises/{exc_sig(r)}", f"{op}({se!r}, {case['new']}) raised {r!r} without any fault")
        return out
    S1 = tree.snapshot(root)
    changed = {k for k in set(S0) | set(S1) if S0.get(k) != S1.get(k)}
    touched = " ".join(e["path"] for e in sess.effects)
    unexplained = [c for c in changed if os.path.join(root, c) not in touched and not any(os.path.join(root, c) == e["path"] for e in sess.effects)
                   and not any(e["path"].startswith(os.path.join(root, c)) for e in sess.effects if e["kind"] == "mkdir")]
    if unexplained:
        raise RuntimeError(f"interposer missed file-system effects: {unexplained}; recorded {sess.effects}")
    okr, rec = read(se)
    okf, found_after = find()
    if not okr or rec != new_rec:
        out.add("C17/complete-run/data-differs", f"after a complete {op}: get_data({se!r}) = {rec}, expected {new_rec}")
        return out
    points = fsfault.crash_points(sess.effects)
    out.label(f"effects:{min(len(sess.effects), 9)}", "overwrite" if case["prev"] is not None else "first-write", "op:" + op,
              "entity:" + ("file" if tree.is_file_type(model, te) else "folder"))
    nt = 0
    for (ei, k) in points:
        tree.restore(root, S0)
        s2 = fsfault.Session(plan=(ei, k))
        crashed = False
        try:
            with fsfault.interpose(s2):
                do_op(WriteToPaths(cname))
        except fsfault.SimulatedCrash:
            crashed = True
        except Exception as e:
            out.add(f"C17/crash-run/other-exception/{exc_sig(e)}", f"crash point {(ei, k)} of {sess.effects}: {op} raised {e!r} instead of dying")
            break
        out.evaluations += 1
        where = f"crash at effect #{ei} {sess.effects[ei]['kind']} (+{k} bytes) of {[(e['kind'], os.path.basename(e['path']), e['n']) for e in sess.effects]} during {op}({se!r}, {case['new']}) with previous data {case['prev']}"
        if not crashed:
            out.add("C17/crash-run/did-not-crash", where)
            break
        if case["prev"] is not None and 0 < ei:
            nt += 1
        okr, rec = read(se)
        if not okr:
            out.add(f"C17/crash/read-raises/{exc_sig(rec)}", f"{where}: get_data raised {rec!r}")
            break
        if rec != old_rec and rec != new_rec:
            out.add("C17/crash/neither-old-nor-new-data", f"{where}: get_data({se!r}) = {rec}; old {old_rec}; new {new_rec}")
            break
        if other_exists:
            oko, orec = read(so)
            if not oko or orec != other_rec:
                out.add("C17/crash/other-entity-data-changed", f"{where}: get_data({so!r}) = {orec}, expected {other_rec}")
                break
        okf, found = find()
        if not okf:
            out.add(f"C17/crash/search-raises/{exc_sig(found)}", f"{where}: find({search!r}) raised {found!r}")
            break
        if found != found_before and found != found_after:
            out.add("C17/crash/search-result-changed", f"{where}: find({search!r}) = {found}; before {found_before}; after the complete operation {found_after}")
            break
        # the next set succeeds and reads back
        exists_now = Path(pe).exists()
        if exists_now:
            if case.get("next") == "shrink":
                # the next write is SHORTER than the interrupted one (left-overs of the dead process must not show through)
                nxt = {list(case["new"])[0]: 0}
            else:
                nxt = {"k9": ei * 1000 + k}
            okn, rn = call(lambda: WriteToPaths(cname).set(se, **nxt))
            if not okn:
                out.add(f"C17/crash/next-set-fails/{type(rn).__name__}", f"{where}: the next set raised {rn!r}")
                break
            okr2, rec2 = read(se)
            exp2 = dict(rec, **nxt)
            if not okr2 or rec2 != exp2:
                out.add("C17/crash/next-set-does-not-read-back", f"{where}: after the next set get_data = {rec2}, expected {exp2}")
                break
    out.nontrivial = nt > 0
    out.key = [case, len(points)]
    out.evaluations = max(1, out.evaluations)
    return out


def corrupt(case, out, model, cname, root, se, so, pe, other_rec, other_exists, read, find, found_before, S0):
    from spil import GetFromPaths
    if case["op"] == "create_data":
        out.label("corrupt:skipped-no-entity")
        return out
    sc = sidecar(model, pe)
    good = json.dumps(dict(case["prev"] or {"k": 1}), indent=4).encode()
    variants = [("truncate", good[:k]) for k in range(0, len(good))]
    variants += [("garbage", b"\x00\xff{{"), ("text", b"not json"), ("directory", None), ("unreadable", good)]
    out.label("corrupt")
    for kind, content in variants:
        tree.restore(root, S0)
        deny = []
        if kind == "directory":
            if sc.exists():
                sc.unlink()
            sc.mkdir()
        else:
            sc.write_bytes(content)
        if kind == "unreadable":
            deny = [os.path.abspath(str(sc))]
        sess = fsfault.Session(deny_read=deny)
        with fsfault.interpose(sess):
            okr, rec = read(se)
            oko, orec = read(so) if other_exists else (True, other_rec)
            okf, found = find()
        out.evaluations += 1
        where = f"sidecar of {se!r} {kind}" + (f" at byte {len(content)}" if kind == "truncate" else "")
        if not okr:
            out.add(f"C17/corrupt/read-raises/{type(rec).__name__}", f"{where}: get_data raised {rec!r}")
            break
        expect = {"sid": se}
        if False:
            pass
        elif rec != expect:
            out.add("C17/corrupt/read-not-just-sid-entry", f"{where}: get_data({se!r}) = {rec}, expected {expect}")
            break
        if not oko or orec != other_rec:
            out.add("C17/corrupt/other-entity-read-affected", f"{where}: get_data({so!r}) = {orec}, expected {other_rec}")
            break
        if not okf or found != found_before:
            out.add("C17/corrupt/search-affected", f"{where}: find = {found}, before {found_before}")
            break
    out.nontrivial = True
    out.key = [case, "corrupt"]
    out.evaluations = max(1, out.evaluations)
    return out


EVALUATORS = {"faults": evaluate}


def run(ctx) -> Stats:
    n = int((100 if ctx.quick else 2500) * ctx.options.get("scale", 1.0))
    return drive(ctx, "faults", cases(), evaluate, max_examples=max(4, n))
