"""
C19 - template extrapolation gives every level of every hierarchy one well-named type;
pattern replacement rewrites only the templates its selector matches.
"""
from __future__ import annotations

import copy
from collections import OrderedDict

from vp import confgen, confmodel
from vp.pbt import Outcome, Stats, call, drive, exc_sig

PROPERTY = "C19"
LEVEL = "exploration"
SHARDS = {"quick": 16, "thorough": 16}
RULE = ("template configurations from a grammar: 1-4 basetypes (names may contain key names: shot, asset, shotgun, type), chains of "
        "2-9 keys with optional {key:spec}, shared prefixes, explicit intermediate types at arbitrary levels with conventional, "
        "leaf-variant, bare and unconventional names, arbitrary order, to_extrapolate entries of the basetype__key form (plus absent ones), "
        "key_patterns with selectors matching some / no / all types and chaining replacement pairs. extrapolate_templates is compared "
        "(including order) with an independent implementation of the statement plus direct invariants; pattern_replacing with "
        "sequential replacement. non-trivial = at least one prefix skipped (template or name owned) or a key occurring in the basetype "
        "name of an extrapolated type; distinct = distinct configuration")
ASSUMPTIONS = [
    "input is well-formed: explicit type names unique, explicit templates textually unique, no '/' inside a placeholder spec",
    "to_extrapolate entries have the documented basetype__key form (entries without the separator are not generated)",
]


def evaluate(case) -> Outcome:
    from spil.conf.util import extrapolate_templates, pattern_replacing
    out = Outcome()
    tpls = OrderedDict((n, t) for n, t in case["sid_templates"])
    to_ex = list(case["to_extrapolate"])
    kp = OrderedDict((sel, OrderedDict((f, r) for f, r in reps)) for sel, reps in case["key_patterns"])
    out.sample = {"sid_templates": dict(tpls), "to_extrapolate": to_ex}

    tpls_in = copy.deepcopy(tpls)
    to_ex_in = list(to_ex)
    ok, got = call(extrapolate_templates, tpls_in, to_ex_in)
    if not ok:
        out.add(f"C19/extrapolate/raises/{exc_sig(got)}", f"extrapolate_templates({dict(tpls)}, {to_ex}) raised {got!r}")
        return out
    exp = confmodel.ref_extrapolate(tpls, to_ex)
    got_items = list(got.items())
    exp_items = list(exp.items())

    # non-triviality: a skipped prefix or key in basetype name
    skipped = False
    key_in_base = False
    for name in to_ex:
        if name in tpls:
            nparts = len(tpls[name].split("/"))
            base = name.split("__")[0]
            added = [n for n in exp if n not in tpls and exp[n] != tpls[name] and tpls[name].startswith(exp[n] + "/")]
            if len([1 for n in added]) < nparts - 1:
                skipped = True
            for p in tpls[name].split("/"):
                if confmodel.placeholder_key(p) in name.split("__")[0] or name.split("__")[-1] in base:
                    key_in_base = True
    out.nontrivial = skipped or key_in_base
    if skipped:
        out.label("skipped-prefix")
    if key_in_base:
        out.label("key-in-basetype-name")
    out.label(f"added:{min(len(exp) - len(tpls), 12)}")

    if tpls_in != tpls or list(tpls_in.items()) != list(tpls.items()) or to_ex_in != to_ex:
        out.add("C19/extrapolate/input-mutated", f"input mapping changed: {dict(tpls_in)} vs {dict(tpls)}")

    # direct invariants
    names = [n for n, _ in got_items]
    tvals = [t for _, t in got_items]
    if len(set(names)) != len(names):
        out.add("C19/extrapolate/duplicate-names", f"{names}")
    if len(set(tvals)) != len(tvals):
        out.add("C19/extrapolate/duplicate-templates", f"{got_items}")
    explicit_got = [(n, t) for n, t in got_items if n in tpls]
    if explicit_got != list(tpls.items()):
        out.add("C19/extrapolate/explicit-changed-or-reordered", f"explicit part {explicit_got} vs configured {list(tpls.items())}")
    sources = [tpls[n] for n in to_ex if n in tpls]
    for n, t in got_items:
        if n in tpls:
            continue
        if not any(src.startswith(t + "/") for src in sources):
            out.add("C19/extrapolate/added-not-a-prefix", f"added {n!r}: {t!r} is not a '/'-prefix of an extrapolated template")
    if got_items != exp_items:
        sig = "C19/extrapolate/differs-from-reference"
        if [t for _, t in got_items] == [t for _, t in exp_items]:
            sig = "C19/extrapolate/wrong-type-name"
        elif sorted(got_items) == sorted(exp_items):
            sig = "C19/extrapolate/wrong-order"
        elif set(t for _, t in got_items) != set(t for _, t in exp_items):
            sig = "C19/extrapolate/wrong-template-set"
        out.add(sig, f"extrapolate_templates({dict(tpls)}, {to_ex})\n got      {got_items}\n expected {exp_items}")

    # pattern replacing, on the reference extrapolation (so this half is independent of the first)
    base = OrderedDict(exp_items)
    work = copy.deepcopy(base)
    kp_in = copy.deepcopy(kp)
    ok, r = call(pattern_replacing, work, kp_in)
    if not ok:
        out.add(f"C19/replacing/raises/{exc_sig(r)}", f"pattern_replacing raised {r!r}")
        return out
    expr = confmodel.ref_pattern_replacing(base, kp)
    if kp_in != kp:
        out.add("C19/replacing/key-patterns-mutated", "key_patterns changed")
    for n in base:
        matched = any(sel in n for sel in kp)
        if not matched and work.get(n) != base[n]:
            out.add("C19/replacing/unselected-template-changed", f"{n!r}: {base[n]!r} -> {work.get(n)!r} although no selector of {list(kp)} matches")
    if list(work.items()) != list(expr.items()):
        out.add("C19/replacing/differs-from-reference", f"key_patterns {dict(kp)}\n got {list(work.items())}\n expected {list(expr.items())}")
    if kp and any(any(sel in n for sel in kp) for n in base) and any(not any(sel in n for sel in kp) for n in base):
        out.label("selector-partial")
    out.evaluations = 2
    return out


EVALUATORS = {"templates": evaluate}


def run(ctx) -> Stats:
    n = int((3000 if ctx.quick else 60000) * ctx.options.get("scale", 1.0))
    return drive(ctx, "templates", confgen.templates(), evaluate, max_examples=n)
