"""
C15 - created entities exist, and attribute data reads back what was written.
"""
from __future__ import annotations

import itertools
import json
from pathlib import Path

from hypothesis import strategies as st

from vp import confmodel, env, gens, reffind, refsearch, tree
from vp.pbt import Outcome, Stats, call, drive, enumerate_cases, exc_sig

PROPERTY = "C15"
LEVEL = "exploration"
SHARDS = {"quick": 16, "thorough": 16}
RULE = ("(a) EXHAUSTIVE sequences over an 8-symbol alphabet (create file A; create its same-stem sibling A' with another extension; create "
        "folder F = A's task level; set A k; set A' k; update F; set on a non-existent sibling; create on a Sid without path) - quick: every "
        "sequence of length <= 4 (4680), thorough: length <= 6 (299592), sharded; (b) Hypothesis-generated sequences of up to 40 create / "
        "create-with-data / set / update operations over 6-10 Sids (files, same-stem siblings, folders incl. dotted names, parents, Sids "
        "without path) with JSON-native values; the entity is named by string, uri or Sid object; a quarter of the cases work in a non-default path "
        "configuration, a quarter with file templates configured for some extensions. After every step, for every alphabet Sid: exists() and the results of matching searches (exactly the model's existing entities) "
        "(parent/*, root/**) agree with an in-memory model, all path-backed ancestors exist, a NEW Getter reads the overlay-in-order of "
        "everything written to that sidecar class plus 'sid'; failing calls raise SpilException and leave the tree byte-identical; sampled "
        "sequences are re-read in a freshly forked post-import process. non-trivial = a write after a write to a different entity, or an "
        "error case; distinct = distinct sequence")
ASSUMPTIONS = [
    "attribute keys 'attribute', 'value', 'data', 'key', 'query' are not generated (parameter names); a stored 'sid' key is generated for update / create (a record copied from another entity): the entity's own 'sid' entry must win",
    "two entities share attribute data exactly when their paths are equal after removing the last suffix (the tolerance the statement grants)",
    "values are JSON-native (str, int, bool, None, finite float, lists / dicts of those)",
    "entity names starting with '.' are not generated",
]

_state = {}


def _m():
    return confmodel.load()


def sources(model):
    if "s" not in _state:
        _state["s"] = reffind.probe_sources(model)
    return _state["s"]


def reader():
    """Fresh-process reader sharing this worker's staged configuration (hence its trees)."""
    if "z" not in _state:
        from vp.checks.c13 import Zygote
        _state["z"] = Zygote(0, shared_conf=env.conf_dir())
        import atexit
        atexit.register(_state["z"].close)
    return _state["z"]


json_values = st.recursive(
    st.one_of(st.none(), st.booleans(), st.integers(-5, 10 ** 6), st.floats(allow_nan=False, allow_infinity=False, width=32),
              st.text(alphabet="abcxyz éß\"'\\/{}[]\n", max_size=12)),
    lambda ch: st.one_of(st.lists(ch, max_size=3), st.dictionaries(st.text(alphabet="abk", min_size=1, max_size=3), ch, max_size=3)),
    max_leaves=6)
KEYS = ["comment", "author", "k1", "k2", "frames", "Sid", "ext"]


def base_alphabet(model):
    """Sids of the exhaustive alphabet, derived from the configuration."""
    m = model.sid
    pm = model.paths[model.default_config]
    leaf = [t for t in m.types if pm.has_path(t) and m.is_leaf_type(t)][0]
    aliases = set(m.extension_alias)
    f = {}
    for k in m.keys(leaf):
        spec = m.specs[(leaf, k)]
        if spec.free:
            f[k] = "x"
        elif spec.literals:
            f[k] = [l for l in spec.literals if l not in aliases][0]
        else:
            p, n = spec.digit_forms[0]
            f[k] = p + "1".zfill(n)
    lk = m.keys(leaf)[-1]
    exts = [l for l in m.specs[(leaf, lk)].literals if l not in aliases]
    A = m.render(leaf, f)
    A2 = m.render(leaf, dict(f, **{lk: exts[1]}))
    keys = m.keys(leaf)
    # F: a folder level of A (3 levels above the leaf if possible), N: a sibling of A that is never created
    depth = max(2, len(keys) - 3)
    F = "/".join(A.split("/")[:depth])
    dig = [k for k in keys if m.specs[(leaf, k)].digit_forms]
    if dig:
        p, n = m.specs[(leaf, dig[-1])].digit_forms[0]
        N = m.render(leaf, dict(f, **{dig[-1]: p + "7".zfill(n)}))
    else:
        N = m.render(leaf, dict(f, **{lk: exts[2 % len(exts)]}))
    nopath = [t for t in m.types if not pm.has_path(t)]
    P = None
    for t in nopath:
        ks = m.keys(t)
        if ks == keys[:len(ks)]:
            P = "/".join(A.split("/")[:len(ks)])
            break
    return {"A": A, "A2": A2, "F": F, "N": N, "P": P or "bla/bla"}


def exhaustive_cases(model, maxlen, ctx):
    al = base_alphabet(model)
    sids = [al["A"], al["A2"], al["F"], al["N"], al["P"]]
    symbols = [
        {"op": "create", "sid": 0}, {"op": "create", "sid": 1}, {"op": "create", "sid": 2},
        {"op": "set", "sid": 0, "key": "k1"}, {"op": "set", "sid": 1, "key": "k1"}, {"op": "update", "sid": 2, "key": "k2"},
        {"op": "set", "sid": 3, "key": "k1"}, {"op": "create", "sid": 4},
    ]
    idx = 0
    for n in range(1, maxlen + 1):
        for combo in itertools.product(range(len(symbols)), repeat=n):
            idx += 1
            if idx % ctx.nshards != ctx.shard:
                continue
            ops = []
            for step, c in enumerate(combo):
                o = dict(symbols[c])
                if "key" in o:
                    o["data"] = {o.pop("key"): step + 1}
                ops.append(o)
            yield {"sids": sids, "ops": ops, "fresh": idx % (16 * 20) == ctx.shard}


@st.composite
def random_cases(draw):
    model = _m()
    m = model.sid
    pm = model.paths[model.default_config]
    ptypes = [t for t in m.types if pm.has_path(t)]
    names = ["x", "y", "x.b", "x.c", "x_y", "v001", "x-1"]
    ents = draw(gens.universe(m, types=ptypes, min_size=3, max_size=7, names=names))
    sids = []
    for t, f in ents:
        sids.append(m.render(t, f))
        if m.is_leaf_type(t) and draw(st.booleans()):
            lk = m.keys(t)[-1]
            sids.append(m.render(t, dict(f, **{lk: draw(gens.entity_value(m, t, lk))})))   # same stem, maybe other ext
        if draw(st.integers(0, 3)) == 0:
            anc = gens.ancestors(m, t, f)
            if anc:
                a = anc[draw(st.integers(0, len(anc) - 1))]
                sids.append(m.render(*a))
    nopath = [t for t in m.types if not pm.has_path(t)]
    if nopath and draw(st.booleans()):
        t = draw(st.sampled_from(nopath))
        sids.append(m.render(t, {k: draw(gens.entity_value(m, t, k, names)) for k in m.keys(t)}))
    sids.append("bla/bla")
    sids = list(dict.fromkeys(sids))
    ops = []
    for _ in range(draw(st.integers(1, 40))):
        op = draw(st.sampled_from(["create", "create", "create_data", "set", "set", "update", "set_attr"]))
        o = {"op": op, "sid": draw(st.integers(0, len(sids) - 1)), "as": draw(st.sampled_from(["str", "str", "str", "uri", "obj"]))}
        if op != "create":
            nk = 1 if op == "set_attr" else draw(st.integers(1, 3))
            o["data"] = {draw(st.sampled_from(KEYS)): draw(json_values) for _ in range(nk)}
            if op in ("update", "create_data") and draw(st.integers(0, 3)) == 0:
                # a record read from another entity and written here carries that entity's 'sid' entry
                o["data"]["sid"] = sids[draw(st.integers(0, len(sids) - 1))]
            if op in ("update", "create_data") and draw(st.integers(0, 2)) == 0:
                # the caller passes the SAME dict object to several calls (e.g. a loop stamping one record on many Sids)
                o["share"] = draw(st.integers(0, 1))
        ops.append(o)
    shared = {}
    for o in ops:
        if "share" in o:
            o["data"] = shared.setdefault(o["share"], o["data"])
    # one case in four works in another path configuration than the default one (its own root, mapping and templates)
    others = [c for c in model.paths if c != model.default_config]
    config = draw(st.sampled_from(others)) if others and draw(st.integers(0, 3)) == 0 else None
    # the configuration may name a template file per extension: files are then created by copying it (instead of touch)
    exts = sorted({x.split("/")[-1] for x in sids if m.type_first(x)[0] and m.is_leaf_type(m.type_first(x)[0])})
    templates = draw(st.lists(st.sampled_from(exts), max_size=2, unique=True)) if exts and draw(st.integers(0, 3)) == 0 else []
    return {"sids": sids, "ops": ops, "fresh": draw(st.integers(0, 9)) == 0, "config": config, "templates": templates}


def sidecar_class(path: str) -> str:
    return str(Path(path).with_suffix(""))


def evaluate(case) -> Outcome:
    from spil import conf as _conf
    configured = getattr(_conf, "create_file_using_template", None)
    added = []
    if case.get("templates") and isinstance(configured, dict):
        from vp import env as _env
        for ext in case["templates"]:
            if ext not in configured:
                tp = _env.scratch() / f"c15_template.{ext}"
                tp.write_text("template of " + ext)
                configured[ext] = str(tp)
                added.append(ext)
    try:
        out = _evaluate(case)
        if added:
            out.label("file-templates-configured")
        return out
    finally:
        for ext in added:
            configured.pop(ext, None)


def _evaluate(case) -> Outcome:
    from spil import FindInPaths, GetFromPaths, Sid, SpilException, WriteToPaths
    model = _m()
    m = model.sid
    cname = case.get("config") or model.default_config
    is_default = cname == model.default_config
    pm = model.paths[cname]
    tree.reset(model)
    out = Outcome(key=case, sample={"sids": case["sids"][:6], "ops": case["ops"][:8], "config": cname})
    out.label("config:" + ("default" if is_default else "other"))

    def exists_of(text):
        # Sid.exists() asks the configured sources (default path configuration); in another configuration its Finder is asked
        if is_default:
            return Sid(text).exists()
        return FindInPaths(cname).exists(text)

    sids = case["sids"]
    info = []
    for s in sids:
        t, f = m.type_first(s)
        p = pm.render(t, f) if t else None
        info.append({"s": s, "t": t, "f": f, "path": p})
    created = []           # (t, f) created explicitly
    shared_objs = {}       # share id -> the one dict object the "caller" passes again and again
    data = {}              # sidecar class -> overlay dict
    last_written = None
    nontrivial = False
    writer = WriteToPaths(cname)
    root = pm.root()
    out.evaluations = 0

    def model_existing():
        return tree.existing_set(model, cname, created)

    for n, o in enumerate(case["ops"]):
        i = o["sid"] % len(sids)
        inf = info[i]
        s = inf["s"]
        existing = model_existing()
        exists_now = inf["t"] is not None and f"{inf['t']}:{s}" in existing
        before = tree.snapshot(root)
        op = o["op"]
        d = o.get("data") or {}
        arg = dict(d)
        if "share" in o:
            arg = shared_objs.setdefault(o["share"], dict(d))
            out.label("shared-dict-argument")
        # the entity is named by its string, by its uri, or by a Sid object
        target = s
        if inf["t"] is not None and o.get("as") == "uri":
            target = inf["t"] + ":" + s
        elif inf["t"] is not None and o.get("as") == "obj":
            target = Sid(s)
        if op == "create":
            ok, r = call(writer.create, target)
        elif op == "create_data":
            ok, r = call(writer.create, target, data=arg)
        elif op == "update":
            ok, r = call(writer.update, target, arg)
        elif op == "set":
            ok, r = call(lambda: writer.set(target, **dict(d)))
        else:
            (k, v), = list(d.items())[:1]
            ok, r = call(lambda: writer.set(target, k, v))
        out.evaluations += 1
        what = f"step {n}: {op}({s!r}, {d})"
        if op in ("create", "create_data"):
            should_fail = inf["path"] is None or exists_now
        else:
            should_fail = inf["path"] is None or not exists_now
        if should_fail:
            nontrivial = True
            out.label("error-case:" + op.split("_")[0])
            if ok:
                out.add(f"C15/{op.split('_')[0]}/no-error", f"{what} returned {r!r}; expected SpilException ({'no path' if inf['path'] is None else 'exists' if exists_now else 'does not exist'})")
            elif not isinstance(r, SpilException):
                out.add(f"C15/{op.split('_')[0]}/wrong-exception/{exc_sig(r)}", f"{what} raised {r!r}; expected SpilException")
            after = tree.snapshot(root)
            if after != before:
                out.add(f"C15/{op.split('_')[0]}/failed-call-changed-tree", f"{what}: tree changed: {sorted(set(after) ^ set(before))[:5]}")
                break
        else:
            if not ok:
                sig = f"C15/{op.split('_')[0]}/raises/{exc_sig(r)}"
                dotted = any("." in seg for seg in s.split("/")[:-1]) or (not m.is_leaf_type(inf["t"]) and "." in s.split("/")[-1])
                if dotted:
                    sig = f"C15/{op.split('_')[0]}/dotted-folder-name/raises"
                out.add(sig, f"{what} raised {r!r}")
                break
            if r is not True:
                out.add(f"C15/{op.split('_')[0]}/returned-not-true", f"{what} returned {r!r}")
            if op in ("create", "create_data"):
                created.append((inf["t"], dict(inf["f"])))
            if op != "create":
                cls = sidecar_class(inf["path"])
                if last_written is not None and last_written != cls:
                    nontrivial = True
                last_written = cls
                jd = json.loads(json.dumps(d, default=str))
                data.setdefault(cls, {}).update(jd)

        # ---- invariants after the step
        existing = model_existing()
        world = reffind.World(model, existing, sources(model))
        getter = GetFromPaths(cname)
        for inf2 in info:
            s2 = inf2["s"]
            if inf2["t"] is None:
                continue
            ex_model = f"{inf2['t']}:{s2}" in existing
            if is_default and inf2["path"] is not None and getattr(sources(model).get(inf2["t"]), "kind", "") != "paths":
                # level answered from constants by the configuration (e.g. the project): reference existence model
                try:
                    ex_model = any(e[2] == s2 for e in (world.search(s2, "all") or {}).values())
                except refsearch.RefSpilException:
                    continue
            okx, ex = call(lambda: exists_of(s2))
            out.evaluations += 1
            if not okx:
                out.add(f"C15/exists/raises/{exc_sig(ex)}", f"after {what}: Sid({s2!r}).exists() raised {ex!r}")
                continue
            if inf2["path"] is not None:
                if ex is not ex_model:
                    sig = "C15/exists-differs-from-model"
                    if ex_model and not ex and any("." in seg for seg in s2.split("/")):
                        sig = "C15/dotted-folder-name/exists-differs"
                    out.add(sig, f"after {what}: Sid({s2!r}).exists() = {ex!r}, model {ex_model}; created {[m.render(t, f) for t, f in created]}")
                if f"{inf2['t']}:{s2}" in existing:
                    segs = s2.split("/")
                    for search in ({"/".join(segs[:-1] + ["*"])} | ({segs[0] + "/**"} if m.is_leaf_type(inf2["t"]) else set())):
                        okf, found = call(lambda: [str(x) for x in FindInPaths(cname).find(search)])
                        if not okf:
                            out.add(f"C15/find/raises/{exc_sig(found)}", f"after {what}: find({search!r}) raised {found!r}")
                        elif s2 not in found:
                            out.add("C15/existing-entity-not-found-by-search", f"after {what}: {s2!r} not in FindInPaths.find({search!r}) = {found}")
                        else:
                            # "exactly from the moment it ... was created": nothing but the created entities (and their ancestors) is found
                            try:
                                expf = sorted({e[2] for e in (world.search(search, "paths") or {}).values()})
                            except refsearch.RefSpilException:
                                expf = None
                            if expf is not None and sorted(set(found)) != expf:
                                extra = sorted(set(found) - set(expf))
                                sig = "C15/search-finds-something-never-created" if extra else "C15/search-misses-existing-entities"
                                out.add(sig, f"after {what}: FindInPaths.find({search!r}) = {sorted(found)}, existing according to the model: {expf}")
                    # ancestors with a path exist
                    for tt, ff in gens.ancestors(m, inf2["t"], inf2["f"]):
                        if pm.has_path(tt):
                            oka, exa = call(lambda: exists_of(tt + ":" + m.render(tt, ff)))
                            if not oka or not exa:
                                out.add("C15/ancestor-of-existing-entity-missing", f"after {what}: {s2!r} exists but ancestor {m.render(tt, ff)!r}.exists() = {exa!r}")
                # data
                okd, got = call(getter.get_data, s2)
                if not okd:
                    out.add(f"C15/get_data/raises/{exc_sig(got)}", f"after {what}: get_data({s2!r}) raised {got!r}")
                    continue
                exp = dict(data.get(sidecar_class(inf2["path"]), {}))
                exp["sid"] = s2
                if json.loads(json.dumps(got, default=str)) != exp:
                    out.add("C15/data-differs-from-overlay", f"after {what}: get_data({s2!r}) = {got}, expected {exp}")
        if out.discrepancies:
            break

    # a new process reads the same
    if case.get("fresh") and not out.discrepancies:
        calls = []
        exp = []
        existing = model_existing()
        for inf2 in info:
            if inf2["t"] is None or inf2["path"] is None:
                continue
            calls.append({"k": "get_data", "uri": inf2["s"], "config": cname})
            e = dict(data.get(sidecar_class(inf2["path"]), {}))
            e["sid"] = inf2["s"]
            exp.append({"json": json.dumps(e, sort_keys=True, default=repr)})
            if is_default and getattr(sources(model).get(inf2["t"]), "kind", "") == "paths":
                calls.append({"k": "exists", "uri": inf2["s"]})
                exp.append(f"{inf2['t']}:{inf2['s']}" in existing)
        if calls:
            got = reader().ask(calls)
            out.label("fresh-process-read")
            out.evaluations += len(calls)
            for c, g, e in zip(calls, got, exp):
                if isinstance(e, dict):
                    if not isinstance(g, dict) or "json" not in g or json.loads(g["json"]) != json.loads(e["json"]):
                        out.add("C15/new-process-reads-other-data", f"{c}: new process got {g}, expected {e}")
                elif g != e:
                    out.add("C15/new-process-sees-other-existence", f"{c}: new process got {g}, expected {e}")
    out.nontrivial = nontrivial
    out.evaluations = max(1, out.evaluations)
    return out


EVALUATORS = {"writeread": evaluate}


def run(ctx) -> Stats:
    model = _m()
    scale = ctx.options.get("scale", 1.0)
    stats = Stats()
    maxlen = 4 if ctx.quick else 6
    if scale < 0.5:
        maxlen = 3
    enumerate_cases(ctx, "writeread", exhaustive_cases(model, maxlen, ctx), evaluate, stats)
    stats.notes.append(f"exhaustive: all sequences of length <= {maxlen} over the 8-symbol alphabet enumerated (sharded)")
    n = int((60 if ctx.quick else 2500) * scale)
    drive(ctx, "writeread", random_cases(), evaluate, max_examples=max(5, n), stats=stats)
    return stats
