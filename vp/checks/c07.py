"""
C07 - a search expression unfolds to exactly the typed searches its syntax denotes.
"""
from __future__ import annotations

from hypothesis import strategies as st

from vp import confmodel, gens, refsearch
from vp.pbt import Outcome, Stats, call, drive, exc_sig

PROPERTY = "C07"
LEVEL = "exploration"
SHARDS = {"quick": 16, "thorough": 16}
RULE = ("search strings derived from a valid concrete Sid of a random type: each segment replaced (35%) by '*' or '>', by a comma "
        "list of 2-3 alternatives (valid / invalid / '*', optional spaces), an alias in / added to the last segment, one contiguous span "
        "(possibly empty) collapsed into '**', 0-2 filters (existing / '*' / invalid / comma / deeper / foreign / unknown / alias values, "
        "optional '~'), 6% malformed (two '**', '**' without slash, untypable root, empty segment, '***', lone '?', leading '**'); "
        "unfold_search compared as a set of uris with an independent reference unfolding (vp.refsearch). "
        "non-trivial = reference yields >= 2 typed forms, or the search has '**', or a filter; distinct = distinct search string")
ASSUMPTIONS = [
    "reference unfolding (vp/refsearch.py) implements the C07 statement on the raw configuration",
    "searches whose filter sets a narrowing key are compared only by the weak invariants (filter-then-narrow order is not fixed by the statement)",
    "malformed searches: only weak invariants (typed results, no duplicates, no '?', only SpilException)",
    "when a filter fits several types of which none is the form's type, any of those types is accepted (search Sids, C04 statement)",
    "the leaf key used for '**' is the one configured for the basetype of the root before '**'",
    "do_extrapolate=True (not defined by the statement): only 'result strings are a superset of the plain unfolding's, every typable /-prefix of a plain result is present (documented: intermediate types are included), every element is typed and query-free'",
]


def _model():
    return confmodel.load().sid


def cases():
    m = _model()
    return gens.search(m, allow_gt=True, inseg_star=False)


def weak_invariants(out: Outcome, s, res, tag="C07"):
    from spil import Sid
    if not isinstance(res, list):
        out.add(f"{tag}/not-a-list", f"unfold_search({s!r}) -> {res!r}")
        return False
    uris = []
    for r in res:
        if not isinstance(r, Sid) or not r or not r.type:
            out.add(f"{tag}/untyped-result", f"unfold_search({s!r}) contains untyped {r!r}")
            return False
        if "?" in str(r):
            out.add(f"{tag}/unapplied-query-left", f"unfold_search({s!r}) contains {r!r}")
        uris.append(r.uri)
    if len(set(uris)) != len(uris):
        out.add(f"{tag}/duplicates", f"unfold_search({s!r}) -> {uris}")
    return True


def evaluate(case) -> Outcome:
    from spil import SpilException
    from spil.sid.read.tools import unfold_search
    m = _model()
    s = case["s"]
    out = Outcome(key=s, sample=s)
    out.labels = list(case.get("labels", []))
    malformed = any(l.startswith("malformed") for l in out.labels)

    ok, res = call(unfold_search, s)
    if not ok and not isinstance(res, SpilException):
        out.add(f"C07/raises/{exc_sig(res)}", f"unfold_search({s!r}) raised {res!r}")
        out.nontrivial = True
        return out

    # reference
    try:
        forms = refsearch.unfold(m, s)
        ref_err = None
    except refsearch.RefSpilException as e:
        forms, ref_err = None, e

    path, q = refsearch.split_search(s)
    touches_narrowing = False
    if q:
        nk = refsearch.narrowing_keys(m)
        touches_narrowing = any(k in nk for k, _ in refsearch.parse_query(q))
    out.nontrivial = bool((forms and len(forms) >= 2) or "**" in s or q)
    if forms is not None:
        out.label(f"forms:{min(len(forms), 9)}")
    if ref_err:
        out.label("ref-expects-SpilException")

    if malformed or touches_narrowing or ("/**" in (q or "")):
        out.label("weak-oracle")
        if ok:
            weak_invariants(out, s, res)
        return out

    if ref_err is not None:
        if ok:
            out.add("C07/no-error-but-expected-SpilException", f"unfold_search({s!r}) -> {res!r}; reference: {ref_err}")
        return out
    if not ok:
        out.add("C07/unexpected-SpilException", f"unfold_search({s!r}) raised {res!r}; reference: {[f.uri for f in forms]}")
        return out
    if not weak_invariants(out, s, res):
        return out
    got = sorted(r.uri for r in res)
    alt_sets = [f.alt_uris() for f in forms]
    union = set().union(*alt_sets) if alt_sets else set()
    extra = [u for u in got if u not in union]
    missing = [sorted(a) for a in alt_sets if not (a & set(got))]
    multi = [sorted(a) for a in alt_sets if len(a & set(got)) > 1]
    if extra or missing or multi:
        sig = "C07/differs"
        if extra and not missing:
            sig = "C07/extra-results"
        elif missing and not extra:
            sig = "C07/missing-results"
        out.add(sig, f"unfold_search({s!r})\n got      {got}\n expected {sorted(sorted(a)[0] for a in alt_sets)}\n extra {extra} missing {missing}")

    # do_extrapolate (observation point only, not defined by the statement): metamorphic, on strings.
    # every plain result string is still present, and every element is typed and query-free.
    ok2, res2 = call(unfold_search, s, do_extrapolate=True)
    out.evaluations = 2
    if not ok2:
        if not isinstance(res2, SpilException):
            out.add(f"C07/extrapolate/raises/{exc_sig(res2)}", f"unfold_search({s!r}, do_extrapolate=True) raised {res2!r}")
    else:
        strings = {str(r) for r in res}
        strings2 = {str(r) for r in res2}
        if not strings <= strings2:
            out.add("C07/extrapolate/not-superset", f"unfold_search({s!r}, do_extrapolate=True) lacks strings {sorted(strings - strings2)}")
        # documented: "all intermediate types are included in the result (the upstream hierarchy)":
        # every '/'-prefix of a plain result that the configuration can type is present
        for x in sorted(strings):
            segs_x = x.split("/")
            for kk in range(1, len(segs_x)):
                pre = "/".join(segs_x[:kk])
                if pre not in strings2 and m.type_first(pre)[0]:
                    out.add("C07/extrapolate/intermediate-level-missing", f"unfold_search({s!r}, do_extrapolate=True) lacks the level {pre!r} above {x!r}: {sorted(strings2)}")
                    break
        for r in res2:
            if not r or "?" in str(r):
                out.add("C07/extrapolate/invalid-element", f"unfold_search({s!r}, do_extrapolate=True) contains {r!r}")
    return out


EVALUATORS = {"unfold": evaluate}


def run(ctx) -> Stats:
    n = int((1500 if ctx.quick else 40000) * ctx.options.get("scale", 1.0))
    return drive(ctx, "unfold", cases(), evaluate, max_examples=n)
