"""
C16 - a Getter returns one record per Sid its Finder finds, in the same order.
"""
from __future__ import annotations

import json
from collections import Counter
from pathlib import Path

from hypothesis import strategies as st

from vp import confmodel, gens, refsearch, tree
from vp.pbt import Outcome, Stats, call, drive, exc_sig

PROPERTY = "C16"
LEVEL = "exploration"
SHARDS = {"quick": 16, "thorough": 16}
RULE = ("universes of 3-14 path-backed entities in the local tree with random attribute data (written directly as sidecar JSON) on a random "
        "subset; 3 searches per universe from the C07 family ('*', '>', comma, alias, '**', filters); attributes in {None, subset of written keys, "
        "unknown keys, 'sid' included}; sid_encode in {str, uri, None-returning}; one case in four works in a non-default path configuration. GetFromPaths(c).get must yield one record per Sid of "
        "FindInPaths(c).find in the same order, carrying the encoded Sid and exactly that Sid's stored data / requested keys; GetFromAll must equal "
        "GetFromPaths as a multiset for forms whose type has a configured Getter and yield nothing for the others; get_one / get_data / get_attr "
        "are the first record, the record of that Sid, one value (also for the not existing sibling-extension Sid sharing a sidecar); plain entities and other searches are also asked as Sid objects typed with any accepting template. non-trivial = >= 2 records and at least one with stored data; "
        "distinct = (universe, data, search, attributes, encoder)")
ASSUMPTIONS = [
    "the empty attributes list is not generated (the code treats it as 'no filter', the statement does not say)",
    "sidecar location comes from the configuration's get_data_json_path",
    "GetFromAll is compared with GetFromPaths only for searches without '>' whose filter does not touch a narrowing key",
]

ENCODERS = {"str": str, "uri": (lambda s: s.uri), "none": (lambda s: None)}
KEYS = ["comment", "author", "frames", "k1", "version", "type"]   # the last two are also names of Sid keys


def _m():
    return confmodel.load()


@st.composite
def cases(draw):
    model = _m()
    m = model.sid
    pm = model.paths[model.default_config]
    ptypes = [t for t in m.types if pm.has_path(t)]
    # names: a tiny pool plus two values of the leaf vocabulary (a node named like an extension makes one string fit two types)
    leafs = sorted({l for (tt, kk), sp in m.specs.items() if kk == m.keys(tt)[-1] and m.is_leaf_type(tt) for l in sp.literals if l not in m.extension_alias})[:2]
    ents = draw(gens.universe(m, types=ptypes, min_size=3, max_size=14, names=["x", "y", "x_y", "x-1"] + leafs))
    data = {}
    for i in range(len(ents)):
        if draw(st.integers(0, 9)) < 6:
            data[str(i)] = {draw(st.sampled_from(KEYS)): draw(st.one_of(st.integers(0, 99), st.text(alphabet="abc é", max_size=5), st.none(),
                                                                   st.lists(st.integers(0, 3), max_size=3)))
                            for _ in range(draw(st.integers(1, 3)))}
    searches = []
    for _ in range(3):
        t, f = ents[draw(st.integers(0, len(ents) - 1))]
        if draw(st.integers(0, 9)) < 2:
            anc = gens.ancestors(m, t, f)
            if anc:
                t, f = anc[draw(st.integers(0, len(anc) - 1))]
        if draw(st.integers(0, 9)) < 2:
            sr = {"s": m.render(t, f), "labels": ["plain"]}     # the entity itself (often asked as a Sid object, see below)
        elif draw(st.integers(0, 9)) < 2:
            sr = draw(gens.gt_search(m, t, f))
        else:
            sr = draw(gens.search_from(m, t, f, allow_gt=False, allow_malformed=False))
        attrs = draw(st.sampled_from([None, None, ["comment"], ["comment", "author"], ["nokey"], ["sid", "frames"], ["k1", "nokey", "comment"],
                                        ["version"], ["type", "comment"]]))
        enc = draw(st.sampled_from(["str", "str", "uri", "none"]))
        searches.append({"s": sr["s"], "attributes": attrs, "encode": enc, "obj": draw(st.integers(0, 4 if sr.get("labels") != ["plain"] else 1)) == 0, "pick": draw(st.integers(0, 5))})
    others = [c for c in model.paths if c != model.default_config]
    config = draw(st.sampled_from(others)) if others and draw(st.integers(0, 3)) == 0 else None
    return {"entities": [[t, f] for t, f in ents], "data": data, "searches": searches, "config": config}


def evaluate(case) -> Outcome:
    from spil import FindInPaths, GetFromAll, GetFromPaths, Sid, SpilException, conf
    model = _m()
    m = model.sid
    cname = case.get("config") or model.default_config
    is_default = cname == model.default_config
    pm = model.paths[cname]
    ents = [(t, f) for t, f in case["entities"]]
    tree.reset(model)
    tree.materialise(model, cname, ents)
    stored = {}   # sid uri -> data (two types may share one string, e.g. a cache node named like an extension)
    for i, d in case["data"].items():
        t, f = ents[int(i) % len(ents)]
        p = pm.render(t, f)
        sc = model.data_mod.get_data_json_path(Path(p))
        # entities sharing a sidecar (same stem) share data: merge like the model of C15
        prev = json.loads(sc.read_text()) if sc.exists() else {}
        prev.update(d)
        sc.write_text(json.dumps(prev))
    # stored data per existing entity = content of its sidecar
    existing = tree.existing_set(model, cname, ents)
    for u, (t, f, s) in existing.items():
        sc = model.data_mod.get_data_json_path(Path(pm.render(t, f)))
        stored[u] = json.loads(sc.read_text()) if sc.exists() else {}
    out = Outcome(sample={"entities": [m.render(t, f) for t, f in ents][:6], "searches": case["searches"]})
    out.evaluations = 0
    nt = []

    def expected_record(sid, attrs, enc):
        d = dict(stored.get(sid.uri, {}))
        e = ENCODERS[enc](sid)
        if e:
            d["sid"] = e
        if attrs:
            return {k: d.get(k) for k in attrs}
        return d

    for sr in case["searches"]:
        s, attrs, enc = sr["s"], sr["attributes"], sr["encode"]
        encf = ENCODERS[enc]
        as_object = False
        if sr.get("obj") and "?" not in s and ":" not in s:
            # the search given as a Sid OBJECT, typed with any of the templates accepting the string
            tts = list(m.types_all(s))
            if tts:
                s = Sid(tts[sr.get("pick", 0) % len(tts)] + ":" + s)
                as_object = True
                out.label("search-as-sid-object")
        ok, found = call(lambda: list(FindInPaths(cname).find(s)))
        ok2, recs = call(lambda: list(GetFromPaths(cname).get(s, attributes=attrs, sid_encode=encf)))
        out.evaluations += 2
        if not ok or not ok2:
            if not ok and not ok2 and isinstance(found, SpilException) and isinstance(recs, SpilException):
                out.label("both-spil-exception")
                continue
            out.add(f"C16/paths/raises/{exc_sig(recs if not ok2 else found)}", f"find({s!r}) -> {found!r}; get({s!r}, {attrs}, {enc}) -> {recs!r}")
            continue
        what = f"GetFromPaths.get({s!r}, attributes={attrs}, sid_encode={enc})"
        if len(recs) != len(found):
            out.add("C16/paths/record-count-differs", f"{what} yields {len(recs)} records, find yields {len(found)} Sids: {[str(x) for x in found]}")
            continue
        for sid, rec in zip(found, recs):
            exp = expected_record(sid, attrs, enc)
            if dict(rec) != exp:
                sig = "C16/paths/record-differs"
                if "sid" in rec and "sid" in exp and rec["sid"] != exp["sid"]:
                    sig = "C16/paths/order-or-sid-differs"
                out.add(sig, f"{what}: record for {sid!r} is {dict(rec)}, expected {exp}")
                break
        if len(found) >= 2 and any(stored.get(x.uri) for x in found):
            nt.append(sr)
        out.label(f"records:{min(len(found), 5)}", "enc:" + enc, "attrs:" + ("none" if attrs is None else "list"))

        # get_one
        ok3, one = call(lambda: GetFromPaths(cname).get_one(s, attributes=attrs, sid_encode=encf))
        if not ok3:
            out.add(f"C16/get_one/raises/{exc_sig(one)}", f"get_one({s!r}) raised {one!r}")
        elif dict(one) != (dict(recs[0]) if recs else {}):
            out.add("C16/get_one/not-first-record", f"get_one({s!r}, {attrs}, {enc}) = {dict(one)}, first record {dict(recs[0]) if recs else {} }")

        # GetFromAll (reads the default path configuration)
        if as_object:
            continue
        path, q = refsearch.split_search(s)
        if not is_default or ">" in s or (q and any(k in refsearch.narrowing_keys(m) for k, _ in refsearch.parse_query(q))):
            continue
        try:
            forms = refsearch.unfold(m, s)
        except refsearch.RefSpilException:
            continue
        with_getter = set()
        for fm in forms:
            okg, g = call(conf.get_getter_for, Sid(fm.uri), None, None)
            if okg and g is not None:
                with_getter.add(fm.type)
        ok4, allrecs = call(lambda: list(GetFromAll().get(s, attributes=attrs, sid_encode=encf)))
        out.evaluations += 1
        if not ok4:
            out.add(f"C16/all/raises/{exc_sig(allrecs)}", f"GetFromAll.get({s!r}, {attrs}, {enc}) raised {allrecs!r}")
            continue
        exp_recs = [expected_record(sid, attrs, enc) for sid in found if sid.type in with_getter]
        cg = Counter(json.dumps(dict(r), sort_keys=True, default=repr) for r in allrecs)
        ce = Counter(json.dumps(r, sort_keys=True, default=repr) for r in exp_recs)
        if cg != ce:
            out.add("C16/all/differs-from-paths-getter", f"GetFromAll.get({s!r}, {attrs}, {enc}) = {[dict(r) for r in allrecs]}\n expected (types with a Getter: {sorted(with_getter)}) {exp_recs}")
        if any(fm.type not in with_getter for fm in forms):
            out.label("form-without-getter")

    # get_data / get_attr on single Sids
    probe = list(existing.items())[:4] + [(u, e) for u, e in existing.items() if m.is_leaf_type(e[0]) and stored.get(u)][:3]
    for u, (t, f, s) in probe:
        sid = Sid(u)
        okd, rec = call(lambda: GetFromPaths(cname).get_data(sid))
        out.evaluations += 1
        if not okd:
            out.add(f"C16/get_data/raises/{exc_sig(rec)}", f"get_data({u!r}) raised {rec!r}")
            continue
        if dict(rec) != expected_record(sid, None, "str"):
            out.add("C16/get_data/differs", f"get_data({u!r}) = {dict(rec)}, expected {expected_record(sid, None, 'str')}")
        for k in (KEYS[:2] + [kk for kk in stored.get(u, {}) if kk not in KEYS[:2]][:1]):
            oka, v = call(lambda: GetFromPaths(cname).get_attr(sid, k))
            if not oka:
                out.add(f"C16/get_attr/raises/{exc_sig(v)}", f"get_attr({u!r}, {k!r}) raised {v!r}")
            elif v != stored.get(u, {}).get(k):
                out.add("C16/get_attr/differs", f"get_attr({u!r}, {k!r}) = {v!r}, stored {stored.get(u, {}).get(k)!r}")
            # get_attr is one value of get_data's record - also for a Sid that shares the sidecar of a sibling extension
            if m.is_leaf_type(t):
                lits = [l for l in m.specs[(t, m.keys(t)[-1])].literals if l != f[m.keys(t)[-1]] and l not in m.extension_alias and l not in ("*", ">")]
                if lits:
                    sib = Sid(t + ":" + m.render(t, dict(f, **{m.keys(t)[-1]: lits[0]})))
                    okd2, rec2 = call(lambda: GetFromPaths(cname).get_data(sib))
                    oka2, va = call(lambda: GetFromPaths(cname).get_attr(sib, k))
                    if okd2 and oka2 and va != dict(rec2).get(k):
                        out.add("C16/get_attr/differs-from-get_data", f"get_attr({sib.uri!r}, {k!r}) = {va!r}, get_data gives {dict(rec2)}")
            if not is_default:
                continue
            okb, v2 = call(lambda: sid.get_attr(k))
            okg, g = call(conf.get_getter_for, sid, k, None)
            if okb and okg:
                want = stored.get(u, {}).get(k) if g is not None else None
                if v2 != want:
                    out.add("C16/sid-get_attr/differs", f"Sid({u!r}).get_attr({k!r}) = {v2!r}, expected {want!r} (configured getter: {g})")
            elif not okb:
                out.add(f"C16/sid-get_attr/raises/{exc_sig(v2)}", f"Sid({u!r}).get_attr({k!r}) raised {v2!r}")
    # the configuration argument selects the tree: other data in the last configuration's tree must be read from there only
    configs = list(model.paths)
    if len(configs) >= 2 and ents and is_default:
        other = configs[-1]
        pmo = model.paths[other]
        t0, f0 = ents[0]
        if pmo.has_path(t0):
            tree.materialise(model, other, [(t0, f0)])
            model.data_mod.get_data_json_path(Path(pmo.render(t0, f0))).write_text(json.dumps({"where": other}))
            s0 = m.render(t0, f0)
            for c in (cname, other):
                okc, rec = call(lambda: dict(GetFromPaths(c).get_data(t0 + ":" + s0)))
                out.evaluations += 1
                want = dict(stored.get(t0 + ":" + s0, {}), sid=s0) if c == cname else {"where": other, "sid": s0}
                if not okc:
                    out.add(f"C16/config/raises/{exc_sig(rec)}", f"GetFromPaths({c!r}).get_data({s0!r}) raised {rec!r}")
                elif rec != want:
                    out.add("C16/config/data-read-from-another-configuration", f"GetFromPaths({c!r}).get_data({s0!r}) = {rec}, expected {want}")
            okc, recs = call(lambda: [dict(r) for r in GetFromPaths(other).get(s0)])
            if okc and recs != [{"where": other, "sid": s0}]:
                out.add("C16/config/get-read-from-another-configuration", f"GetFromPaths({other!r}).get({s0!r}) = {recs}")
            fk = [k for k in m.keys(t0) if m.specs[(t0, k)].free]
            if fk:
                f1 = dict(f0, **{fk[-1]: "onlyhere"})
                s1 = m.render(t0, f1)
                tree.materialise(model, other, [(t0, f1)])
                for c in (cname, other):
                    okc, recs = call(lambda: [dict(r) for r in GetFromPaths(c).get(s1)])
                    want = [{"sid": s1}] if c == other else []
                    if okc and recs != want:
                        out.add("C16/config/get-searches-another-configuration", f"{s1!r} exists only in the {other!r} tree; GetFromPaths({c!r}).get -> {recs}, expected {want}")
            out.label("config-probe")
    out.nontrivial = bool(nt)
    out.key = [case["entities"], case["data"], nt]
    out.evaluations = max(1, out.evaluations)
    return out


EVALUATORS = {"getter": evaluate}


def run(ctx) -> Stats:
    n = int((300 if ctx.quick else 8000) * ctx.options.get("scale", 1.0))
    return drive(ctx, "getter", cases(), evaluate, max_examples=n)
