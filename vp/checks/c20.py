"""
C20 - the guarantees hold for any well-formed configuration, not only the demo one.

Each generated Spec is rendered to a complete configuration package; the config-generic cores of C01-C08 and C11
are then run in their own subprocesses with that package first on sys.path.
"""
from __future__ import annotations

import json
import os
import shutil
import subprocess
import sys
import tempfile
from pathlib import Path

from hypothesis import strategies as st

from vp import confgen, env
from vp.pbt import Outcome, Stats, drive, enumerate_cases

PROPERTY = "C20"
LEVEL = "exploration"
SHARDS = {"quick": 16, "thorough": 16}
SUBCHECKS = ["C01", "C02", "C03", "C04", "C05", "C06", "C07", "C08", "C11"]
RULE = ("16 canonical Specs (the demo Spec re-rendered and one Spec per single transformation; some also carry a folder joining a free value, a non-first default path configuration, or a path configuration with its own state names) plus Hypothesis-drawn Specs: configuration Specs derived from the demo Spec by random subsets of: renaming the project / type / state / version / leaf / node "
        "keys, the basetypes, type codes and folders; renaming level keys, swapping closed vocabularies and digit prefixes / widths; "
        "inserting or removing a hierarchy level; toggling the side branch; other states and value mappings; other version patterns and "
        "projects; other file-name separators and fixed folders; other extension groups and aliases; a third basetype; a third path "
        "configuration, any of the configurations being the default, the last one optionally with its own mapped state names; a folder name joining a closed and a free value. Each Spec is rendered to a full configuration package (sid, fs, data conf) and the cores of C01-C08 and C11 "
        "(their oracles come from the reference model built on the loaded raw conf) run in subprocesses with that package first on the "
        "python path, at reduced example counts. evaluations = configurations x sub-checks run; "
        "non-trivial = configuration differing from the demo in >= 2 dimensions; distinct = distinct Spec")
ASSUMPTIONS = [
    "generated configurations follow the conventions: exclusive value patterns per level, at most one free level per file name, path templates mirroring the Sid templates, one-to-one mappings",
    "the sub-checks run with small example counts (this check looks for configuration dependence, depth is in C01-C11)",
    "sub-check signatures are prefixed with C20/<sub-check>/; open known findings of the sub-properties are listed again for C20 with an example under the identity Spec",
]

VERIF = Path(__file__).resolve().parent.parent.parent


def run_sub(conf_dir: Path, sub: str, seed: int, scale: float, out_dir: Path, replay: str = ""):
    out = out_dir / f"{sub}.json"
    envv = dict(os.environ)
    envv["SPIL_VERIF_CONF"] = str(conf_dir)
    envv.pop("SPIL_VERIF_SHARED_CONF", None)
    envv.setdefault("PYTHONHASHSEED", "0")
    envv["PYTHONPATH"] = str(VERIF) + (os.pathsep + envv["PYTHONPATH"] if envv.get("PYTHONPATH") else "")
    cmd = [sys.executable, "-m", "vp.worker", "--check", sub, "--tier", "quick", "--seed", str(seed), "--shard", "0", "--nshards", "1",
           "--out", str(out), "--scale", str(scale), "--no-shrink"]
    if replay:
        cmd += ["--replay", replay]
    return subprocess.Popen(cmd, cwd=str(VERIF), env=envv, stdout=subprocess.DEVNULL, stderr=subprocess.DEVNULL), out


SCALES = {"C01": 0.1, "C02": 0.08, "C03": 0.1, "C04": 0.1, "C05": 0.1, "C06": 0.08, "C07": 0.2, "C08": 0.12, "C11": 0.15}


def evaluate(case) -> Outcome:
    spec = case["spec"]
    out = Outcome(key=spec, sample={"dims": case.get("dims"), "keys": spec["keys"], "basetypes": [[b["name"], b["code"], [l["key"] for l in b["levels"]]] for b in spec["basetypes"]],
                                    "sep": spec["sep"], "states": spec["states"], "version": spec["version"], "path_configs": spec["path_configs"]})
    out.nontrivial = len(case.get("dims", [])) >= 2
    for d in case.get("dims", []):
        out.label("dim:" + d)
    out.label(f"dims:{min(len(case.get('dims', [])), 6)}")
    problems = confgen.spec_problems(spec)
    if problems:
        # not a configuration "that follows the documented conventions": outside the property's quantifier
        out.label("ill-formed-spec-skipped")
        out.nontrivial = False
        return out
    work = Path(tempfile.mkdtemp(prefix="c20.", dir=str(env.scratch())))
    try:
        conf = work / "conf"
        confgen.render_package(spec, conf)
        mult = float(case.get("scale", 1.0))
        procs = [(sub,) + run_sub(conf, sub, int(case.get("seed", 1)), SCALES[sub] * mult, work) for sub in case.get("subs", SUBCHECKS)]
        out.evaluations = len(procs)
        for sub, p, res in procs:
            p.wait()
            if not res.exists():
                raise RuntimeError(f"sub-check {sub} wrote no result under generated configuration {spec}")
            r = json.loads(res.read_text())
            if not r.get("ok"):
                # the configuration could not even be loaded / the sub-check crashed: report as a violation of C20 with the error text,
                # unless it is a harness problem (reference model failure is reported as such)
                err = r.get("error", "")
                if "vp/" in err and "spil/" not in err.split("vp/")[-1]:
                    raise RuntimeError(f"sub-check {sub} harness error under generated configuration: {err[-1500:]}")
                out.add(f"C20/{sub}/cannot-run", f"{sub} failed under the generated configuration: {err[-1200:]}")
                continue
            for v in r.get("violations", []):
                out.add(f"C20/{v['signature']}", f"[{sub} under generated configuration dims={case.get('dims')}] {v['detail'][:1200]}")
    finally:
        shutil.rmtree(work, ignore_errors=True)
    return out


def evaluate_subcase(case) -> Outcome:
    """Replays ONE sub-check case under a Spec (used for the examples of known findings)."""
    spec = case["spec"]
    out = Outcome(key=case)
    work = Path(tempfile.mkdtemp(prefix="c20.", dir=str(env.scratch())))
    try:
        conf = work / "conf"
        confgen.render_package(spec, conf)
        rp = work / "replay.json"
        rp.write_text(json.dumps({"check": case["check"], "case": case["case"]}))
        p, res = run_sub(conf, case["sub"], 1, 1.0, work, replay=str(rp))
        p.wait()
        r = json.loads(res.read_text())
        for d in r.get("replay", []):
            out.add(f"C20/{d['signature']}", d["detail"])
    finally:
        shutil.rmtree(work, ignore_errors=True)
    return out


EVALUATORS = {"config": evaluate, "subcase": evaluate_subcase}


def run(ctx) -> Stats:
    scale = ctx.options.get("scale", 1.0)
    stats = Stats()
    n = max(1, int((1 if ctx.quick else 25) * scale))
    strat = confgen.specs().map(lambda d: dict(d, seed=ctx.seed * 31 + ctx.shard))
    # deterministic members of the family (the demo Spec re-rendered, one Spec per single dimension), spread over the shards
    canon = confgen.canonical_specs()
    mine = [dict(c, seed=ctx.seed * 31 + i) for i, c in enumerate(canon) if i % ctx.nshards == ctx.shard]
    enumerate_cases(ctx, "config", mine, evaluate, stats)
    drive(ctx, "config", strat, evaluate, max_examples=n, stats=stats, shrink=not ctx.quick, reset=None)
    return stats
