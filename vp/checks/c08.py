"""
C08 - searching a list returns exactly the entries that glob-match the search; sid.match agrees.
"""
from __future__ import annotations

from collections import Counter

from hypothesis import strategies as st

from vp import confmodel, gens, refsearch
from vp.pbt import Outcome, Stats, call, drive, exc_sig

PROPERTY = "C08"
LEVEL = "exploration"
SHARDS = {"quick": 16, "thorough": 16}
RULE = ("universes of 3-20 concrete entities of mixed types sharing prefixes (names from a tiny pool: x, x-1, x.b, x_y, x+ ...), "
        "presented as complete hierarchy, leaves only, or noisy (near-miss, untyped and duplicated entries); 4 searches per universe "
        "from the C07 family without '>' (plus in-segment stars, concrete Sids present / absent / ending in an alias); "
        "FindInList(L).find(s) (as strings and as Sids) compared as a multiset with the entries glob-matching a form of the reference unfolding; "
        "sid.match(s) compared with the same predicate for single-element lists. "
        "non-trivial = result non-empty and not the whole list; distinct = distinct (list, search) pair")
ASSUMPTIONS = [
    "reference unfolding and segment glob matcher in vp/refsearch.py ('*' = run of non-'/' characters, everything else literal)",
    "entity values never equal an alias name (aliases are in the extension vocabulary only so that searches can be typed)",
    "searches with a filter on a narrowing key are compared by weak invariants only (see C07)",
    "names containing fnmatch specials ([ ] !) are generated in a separate low-frequency class",
]

BRACKET_NAMES = ["x[1]", "[x]", "x!", "x]"]


def _model():
    return confmodel.load().sid


@st.composite
def cases(draw):
    m = _model()
    names = gens.SMALL_NAMES + (BRACKET_NAMES if draw(st.integers(0, 19)) == 0 else [])
    ents = draw(gens.universe(m, min_size=3, max_size=20, names=names))
    presentation = draw(st.sampled_from(["closure", "leaves", "noisy"]))
    extra = []
    if presentation == "noisy":
        for _ in range(draw(st.integers(1, 5))):
            t, f = ents[draw(st.integers(0, len(ents) - 1))]
            s = m.render(t, f)
            kind = draw(st.sampled_from(["dup", "junk-seg", "truncate-bad", "append", "case", "space"]))
            if kind == "dup":
                extra.append(s)
            elif kind == "junk-seg":
                segs = s.split("/")
                segs[draw(st.integers(0, len(segs) - 1))] = draw(st.sampled_from(["bla", "V001", "zz", ""]))
                extra.append("/".join(segs))
            elif kind == "truncate-bad":
                extra.append(s[: max(1, len(s) - draw(st.integers(1, 3)))])
            elif kind == "append":
                extra.append(s + "/" + draw(st.sampled_from(["x", "v001", "w", "ma", ""])))
            elif kind == "case":
                extra.append(s.upper())
            else:
                extra.append(s + " ")
    searches = []
    for _ in range(4):
        kind = draw(st.sampled_from(["from-entity", "from-entity", "from-entity", "fresh", "concrete", "concrete-alias", "concrete-absent",
                                     "inseg-only"]))
        t, f = ents[draw(st.integers(0, len(ents) - 1))]
        if kind == "inseg-only":
            # a search whose ONLY search symbols are stars inside segments (no field equals '*'): it may match several entries
            freek = [k for k in m.keys(t) if m.specs[(t, k)].free]
            if not freek:
                kind = "from-entity"
            else:
                g = dict(f)
                for k in draw(st.lists(st.sampled_from(freek), min_size=1, max_size=2, unique=True)):
                    v = g[k]
                    g[k] = draw(st.sampled_from([v[:1] + "*", "*" + v[-1:], v[:1] + "*" + v[-1:], "x*", "*x*", "*-*", "*.*"]))
                searches.append({"s": m.render(t, g), "labels": ["inseg-star-only"]})
                continue
        if kind == "fresh":
            t, f = draw(gens.typed_fields(m, digits_dense=True))
        if kind in ("from-entity", "fresh"):
            sr = draw(gens.search_from(m, t, f, allow_gt=False, inseg_star=True, allow_malformed=False, star_p=30))
        elif kind == "concrete":
            sr = {"s": m.render(t, f), "labels": ["concrete"]}
        elif kind == "concrete-alias":
            segs = m.render(t, f).split("/")
            al = gens.all_aliases(m)
            if al:
                segs[-1] = draw(st.sampled_from(al))
            sr = {"s": "/".join(segs), "labels": ["concrete-alias"]}
        else:
            segs = m.render(t, f).split("/")
            i = draw(st.integers(0, len(segs) - 1))
            segs[i] = draw(gens.entity_value(m, t, m.keys(t)[i], names))
            sr = {"s": "/".join(segs), "labels": ["concrete-other"]}
        searches.append(sr)
    return {"entities": [[t, f] for t, f in ents], "presentation": presentation, "extra": extra, "searches": searches}


def build_list(m, case):
    ents = [(t, f) for t, f in case["entities"]]
    if case["presentation"] == "closure":
        L = [m.render(t, f) for t, f in gens.closure(m, ents)]
    else:
        L = [m.render(t, f) for t, f in ents]
    L = L + list(case.get("extra", []))
    return L


def expected_for(m, L, s):
    """Entries (each once) matching at least one unfolded form; None if the reference expects SpilException."""
    forms = refsearch.unfold(m, s)
    uniq = list(dict.fromkeys(L))
    return [e for e in uniq if any(refsearch.glob_match(f.string, e) for f in forms)], forms


def evaluate(case) -> Outcome:
    from spil import FindInList, Sid, SpilException
    m = _model()
    L = build_list(m, case)
    out = Outcome(sample={"list": L[:8], "n": len(L), "searches": [x["s"] for x in case["searches"]]})
    out.label("presentation:" + case["presentation"])
    out.evaluations = 0
    nontrivial_keys = []
    for sr in case["searches"]:
        s = sr["s"]
        for l in sr.get("labels", []):
            out.label(l.split(":")[0] if l.startswith(("sym", "filter", "dstar")) else l)
        path, q = refsearch.split_search(s)
        weak = False
        if q:
            nk = refsearch.narrowing_keys(m)
            weak = any(k in nk for k, _ in refsearch.parse_query(q)) or "/**" in q
        try:
            exp, forms = expected_for(m, L, s)
            ref_err = None
        except refsearch.RefSpilException as e:
            exp, forms, ref_err = None, None, e

        finder = FindInList(list(L))
        ok, got = call(lambda: list(finder.find(s, as_sid=False)))
        out.evaluations += 1
        if not ok:
            if isinstance(got, SpilException):
                if ref_err is None and not weak:
                    out.add("C08/unexpected-SpilException", f"FindInList({L}).find({s!r}) raised {got!r}")
            else:
                out.add(f"C08/find/raises/{exc_sig(got)}", f"FindInList(L).find({s!r}) raised {got!r}; L={L}")
            continue
        if any(not isinstance(x, str) for x in got):
            out.add("C08/as_sid-false-not-strings", f"{got}")
            continue
        ok2, got_sid = call(lambda: list(FindInList(list(L)).find(s, as_sid=True)))
        if not ok2:
            out.add(f"C08/find-as-sid/raises/{exc_sig(got_sid)}", f"FindInList(L).find({s!r}, as_sid=True) raised {got_sid!r}")
        elif [str(x) for x in got_sid] != got or any(not isinstance(x, Sid) for x in got_sid):
            out.add("C08/as-sid-differs-from-strings", f"find({s!r}): as_sid=True {[str(x) for x in got_sid]} vs as_sid=False {got}")
        # a Sid OBJECT built from the search string (when it is typed and carries no query) is the same search
        if "?" not in s:
            so = Sid(s)
            if so and str(so) == s:
                ok3, got_obj = call(lambda: list(FindInList(list(L)).find(so, as_sid=False)))
                out.evaluations += 1
                if not ok3:
                    out.add(f"C08/find-sid-object/raises/{exc_sig(got_obj)}", f"FindInList(L).find(Sid({s!r})) raised {got_obj!r}")
                elif sorted(got_obj) != sorted(got):
                    out.add("C08/find-sid-object-differs-from-string", f"find(Sid({s!r})) = {sorted(got_obj)} but find({s!r}) = {sorted(got)}")
                out.label("sid-object-search")
        # weak invariants: results are entries, each once
        cnt = Counter(got)
        if any(c > 1 for c in cnt.values()):
            out.add("C08/duplicates", f"FindInList({L}).find({s!r}) -> {got}")
        if any(g not in L for g in got):
            out.add("C08/result-not-in-list", f"FindInList({L}).find({s!r}) -> {got}")
        if weak:
            out.label("weak-oracle")
            continue
        if ref_err is not None:
            out.add("C08/no-error-but-expected-SpilException", f"FindInList(L).find({s!r}) -> {got}; reference: {ref_err}")
            continue
        if sorted(got) != sorted(exp):
            sig = "C08/differs"
            if set(got) < set(exp):
                sig = "C08/missing-entries"
            elif set(got) > set(exp):
                sig = "C08/extra-entries"
            # narrow class: the result is exactly what fnmatch-style '[seq]' character classes give
            if "[" in s:
                alt = [e for e in dict.fromkeys(L) if any(refsearch.glob_match_fnmatch(f.string, e) for f in forms)]
                if sorted(alt) == sorted(got):
                    sig = "C08/bracket-is-character-class"
            out.add(sig, f"FindInList({L}).find({s!r})\n got      {sorted(got)}\n expected {sorted(exp)}\n forms {[f.uri for f in forms]}")
        if exp and len(exp) < len(set(L)):
            nontrivial_keys.append(s)
            out.label("result:partial")
        elif exp:
            out.label("result:all")
        else:
            out.label("result:empty")

        # sid.match(s) <=> found in [str(sid)]
        cands = []
        for e in list(dict.fromkeys(L))[:6]:
            sid0 = Sid(e)
            if not sid0:
                continue
            cands.append(sid0)
            # the same string under every other type that accepts it (e.g. a cache node named like an extension):
            # match is defined through a list search on the STRING, so the answer may not depend on the type
            for tt in list(m.types_all(e))[:3]:
                if tt != sid0.type:
                    alt_sid = Sid(tt + ":" + e)
                    if alt_sid:
                        cands.append(alt_sid)
                        out.label("match:forced-other-type")
        for sid in cands:
            e = sid.uri
            exp_m = any(refsearch.glob_match(f.string, str(sid)) for f in forms)
            okm, gm = call(sid.match, s)
            out.evaluations += 1
            if not okm:
                out.add(f"C08/match/raises/{exc_sig(gm)}", f"Sid({e!r}).match({s!r}) raised {gm!r}")
            elif bool(gm) != exp_m or not isinstance(gm, bool):
                alt_m = any(refsearch.glob_match_fnmatch(f.string, str(sid)) for f in forms) or str(sid) == s
                out.add("C08/match/bracket-is-character-class" if ("[" in s and bool(gm) == alt_m and isinstance(gm, bool)) else "C08/match/differs", f"Sid({e!r}).match({s!r}) is {gm!r}, expected {exp_m}; forms {[f.uri for f in forms]}")
    out.nontrivial = bool(nontrivial_keys)
    out.key = [sorted(set(L)), nontrivial_keys]
    out.evaluations = max(1, out.evaluations)
    return out


EVALUATORS = {"listsearch": evaluate}


def run(ctx) -> Stats:
    n = int((400 if ctx.quick else 12000) * ctx.options.get("scale", 1.0))
    return drive(ctx, "listsearch", cases(), evaluate, max_examples=n)
