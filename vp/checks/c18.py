"""
C18 - get_last, get_next and get_new implement a gap-free version workflow.
"""
from __future__ import annotations

from hypothesis import strategies as st

from vp import confmodel, gens, refsearch, reffind, tree
from vp.pbt import Outcome, Stats, call, drive, exc_sig

PROPERTY = "C18"
LEVEL = "exploration"
SHARDS = {"quick": 16, "thorough": 16}
RULE = ("trees with arbitrary version sets per (entity, state, extension): dense, sparse, first (000), maximal (998/999), empty; probes = "
        "task / version / state / file level Sids with the version concrete (existing or not), '*', '>' or absent; then up to 8 steps of "
        "create(sid.get_new('version')). get_last is compared with the reference '>' answer, get_next with version + 1 rendered like the "
        "configured digit pattern (first version when absent; successor of the last existing one for '*' / '>'; empty Sid when not "
        "representable), get_new with the successor of the last existing version which must not exist; all keep every other field; the "
        "publish loop must yield strictly increasing, previously unused versions. non-trivial = >= 2 existing versions with a gap, or a "
        "boundary version (000 / 998 / 999); distinct = (tree, probe)")
ASSUMPTIONS = [
    "the version key is the one the demo plugin handles ('version'); its digit pattern (prefix, width) is read from the configuration",
    "where no sibling version exists the statement does not define get_new's successor: only typed-ness or emptiness, unchanged other fields and non-existence are asserted",
    "reference '>' selection from vp/reffind.py (see C09)",
]

VKEY = "version"
_sources = {}


def _m():
    return confmodel.load()


def sources(model):
    if "s" not in _sources:
        _sources["s"] = reffind.probe_sources(model)
    return _sources["s"]


def vform(m, t):
    """(prefix, narrowest width) of the version pattern, found by probing the pattern with candidate values
    (so that patterns like v\\d\\d\\d\\d? - three or four digits - are understood too)."""
    spec = m.specs[(t, VKEY)]
    if spec.digit_forms:
        return spec.digit_forms[0]
    for prefix in ("v", "V", "r", ""):
        widths = [n for n in range(1, 7) if m.accepts_value(t, VKEY, prefix + "1" * n)]
        if widths:
            return prefix, widths[0]
    raise RuntimeError(f"cannot understand the version pattern {spec.expr!r}")


def vmax(m, t):
    """Greatest representable version number."""
    prefix, w = vform(m, t)
    widths = [n for n in range(1, 8) if m.accepts_value(t, VKEY, prefix + "9" * n)]
    return 10 ** max(widths) - 1


@st.composite
def cases(draw):
    model = _m()
    m = model.sid
    pm = model.paths[model.default_config]
    leafs = [t for t in m.types if pm.has_path(t) and m.is_leaf_type(t) and VKEY in m.keys(t)]
    t = draw(st.sampled_from(leafs))
    keys = m.keys(t)
    prefix, width = vform(m, t)
    hi = vmax(m, t)
    base = {k: draw(gens.entity_value(m, t, k, ["x", "y"])) for k in keys}
    vi = keys.index(VKEY)
    ents = []
    vset_kind = draw(st.sampled_from(["dense", "sparse", "zero", "max", "empty", "single"]))
    if vset_kind == "dense":
        nums = list(range(1, draw(st.integers(2, 5))))
    elif vset_kind == "sparse":
        nums = sorted(draw(st.sets(st.integers(0, 40), min_size=2, max_size=5)))
    elif vset_kind == "zero":
        nums = [0] + sorted(draw(st.sets(st.integers(1, 9), max_size=2)))
    elif vset_kind == "max":
        edge = 10 ** width   # first number that needs one more digit than the narrowest form
        nums = sorted(draw(st.sets(st.sampled_from([hi, hi - 1, hi - 2, 1, min(edge, hi) - 1, min(edge, hi) - 2]), min_size=1, max_size=3)))
    elif vset_kind == "single":
        nums = [draw(st.integers(0, 12))]
    else:
        nums = []
    for n in nums:
        # per version: a random subset of (deeper key values) combinations exists; sometimes only the version folder
        f = dict(base, **{VKEY: prefix + str(n).zfill(width)})
        kind = draw(st.sampled_from(["file", "file", "folder", "other-deeper"]))
        if kind == "folder":
            vt = [x for x in m.types if m.keys(x) == keys[: vi + 1]]
            if vt:
                ents.append([vt[0], {k: f[k] for k in keys[: vi + 1]}])
                continue
        if kind == "other-deeper":
            for k in keys[vi + 1:]:
                f[k] = draw(gens.entity_value(m, t, k, ["x", "y"]))
        ents.append([t, f])
    # an unrelated sibling entity with its own versions
    if draw(st.booleans()):
        other = dict(base)
        freek = [k for k in keys[:vi] if m.specs[(t, k)].free]
        if freek:
            other[freek[-1]] = "zz"
            other[VKEY] = prefix + str(draw(st.integers(0, hi))).zfill(width)
            ents.append([t, other])
    probes = []
    for _ in range(draw(st.integers(2, 5))):
        level = draw(st.integers(vi, len(keys)))        # number of keys kept: vi -> task level (no version)
        vsel = draw(st.sampled_from(["existing", "any", "star", "last", "boundary"]))
        f = dict(base)
        if vsel == "existing" and nums:
            f[VKEY] = prefix + str(draw(st.sampled_from(nums))).zfill(width)
        elif vsel == "any":
            f[VKEY] = prefix + str(draw(st.integers(0, hi))).zfill(width)
        elif vsel == "star":
            f[VKEY] = "*"
        elif vsel == "last":
            f[VKEY] = ">"
        else:
            f[VKEY] = prefix + str(draw(st.sampled_from([0, hi, hi - 1]))).zfill(width)
        pf = {k: f[k] for k in keys[:level]}
        probes.append(pf)
    publish = {"fields": {k: base[k] for k in keys}, "steps": draw(st.integers(0, 8)), "start": draw(st.sampled_from(["existing", "fresh", "noversion"]))}
    if nums:
        publish["fields"][VKEY] = prefix + str(nums[0]).zfill(width)
    else:
        publish["fields"][VKEY] = prefix + str(1).zfill(width)
    return {"type": t, "entities": ents, "probes": probes, "publish": publish, "vset": vset_kind}


def evaluate(case) -> Outcome:
    from spil import Sid, WriteToPaths
    model = _m()
    m = model.sid
    cname = model.default_config
    t = case["type"]
    keys = m.keys(t)
    prefix, width = vform(m, t)
    ents = [(a, b) for a, b in case["entities"]]
    tree.reset(model)
    tree.materialise(model, cname, ents)
    out = Outcome(sample={"entities": [m.render(a, b) for a, b in ents][:6], "probes": case["probes"][:4], "publish": case["publish"]})
    out.label("vset:" + case["vset"])
    out.evaluations = 0

    def world_now(created):
        existing = tree.existing_set(model, cname, ents + created)
        return reffind.World(model, existing, sources(model))

    def vnum(v):
        return int(v[len(prefix):]) if v.startswith(prefix) and v[len(prefix):].isdigit() else None

    def fmt(n):
        s = prefix + str(n).zfill(width)
        return s if m.accepts_value(t, VKEY, s) else None

    def typed(fields):
        ts = m.types_for_fields(fields)
        if not ts:
            return None
        return ts[0], m.render(ts[0], fields)

    def ref_last(world, fields):
        f = dict(fields, **{VKEY: ">"})
        ty = typed(f)
        if ty is None:
            return "untyped", None
        try:
            res = world.search(ty[1], "all")
        except refsearch.RefSpilException:
            return "skip", None
        if res is None:
            return "skip", None
        strs = sorted({e[2] for e in res.values()})
        if len(strs) > 1:
            return "skip", None
        return "ok", (strs[0] if strs else None)

    nums_existing = sorted({vnum(f[VKEY]) for a, f in ents if VKEY in f and all(f.get(k) == case["publish"]["fields"].get(k) for k in keys[:keys.index(VKEY)])})
    gap = len(nums_existing) >= 2 and nums_existing != list(range(nums_existing[0], nums_existing[-1] + 1))
    boundary = any(n in (0, 10 ** width - 1, 10 ** width - 2, vmax(m, t), vmax(m, t) - 1) for n in nums_existing)
    out.nontrivial = gap or boundary
    out.key = [case["entities"], case["probes"], case["publish"]]
    world = world_now([])

    for pf in case["probes"]:
        ty = typed(pf)
        if ty is None:
            continue
        sid = Sid(ty[0] + ":" + ty[1])
        if not sid:
            continue
        v = pf.get(VKEY)
        others = {k: x for k, x in pf.items() if k != VKEY}
        out.label("probe:" + ("noversion" if v is None else "star" if v == "*" else "last" if v == ">" else "concrete"), f"level:{len(pf)}")
        # ---- get_last
        st_, exp_last = ref_last(world, pf)
        ok, got = call(sid.get_last, VKEY)
        out.evaluations += 1
        if not ok:
            out.add(f"C18/get_last/raises/{exc_sig(got)}", f"{sid!r}.get_last('version') raised {got!r}")
        elif st_ == "ok":
            if exp_last is None:
                if got:
                    out.add("C18/get_last/found-but-none-exists", f"{sid!r}.get_last('version') = {got!r}; no sibling version exists")
            elif str(got) != exp_last:
                out.add("C18/get_last/differs", f"{sid!r}.get_last('version') = {got!r}; reference {exp_last!r}; tree {[m.render(a, b) for a, b in ents]}")
            elif {k: x for k, x in got.fields.items() if k != VKEY} != others:
                out.add("C18/get_last/other-fields-changed", f"{sid!r}.get_last('version') = {got!r}")
        # ---- get_next
        if v is None:
            n_exp = 1
        elif v in ("*", ">"):
            if st_ != "ok":
                n_exp = "skip"
            else:
                n_exp = (vnum(exp_last.split("/")[keys.index(VKEY)]) if exp_last else 0) + 1
        else:
            n_exp = vnum(v) + 1
        ok, nxt = call(sid.get_next, VKEY)
        out.evaluations += 1
        if not ok:
            out.add(f"C18/get_next/raises/{exc_sig(nxt)}", f"{sid!r}.get_next('version') raised {nxt!r}")
        elif n_exp != "skip":
            vs = fmt(n_exp)
            exp_fields = dict(pf, **{VKEY: vs}) if vs else None
            # keys must stay in template order for typing
            exp_t = typed({k: exp_fields[k] for k in keys if k in exp_fields}) if exp_fields else None
            if exp_t is None:
                if nxt:
                    out.add("C18/get_next/invalid-not-empty", f"{sid!r}.get_next('version') = {nxt!r}; version {n_exp} is not representable: expected the empty Sid")
            else:
                if not isinstance(nxt, Sid) or not nxt or str(nxt) != exp_t[1]:
                    out.add("C18/get_next/differs", f"{sid!r}.get_next('version') = {nxt!r}; expected {exp_t[1]!r}")
                elif {k: x for k, x in nxt.fields.items() if k != VKEY} != others:
                    out.add("C18/get_next/other-fields-changed", f"{sid!r}.get_next('version') = {nxt!r}")
        # ---- get_new
        ok, new = call(sid.get_new, VKEY)
        out.evaluations += 1
        if not ok:
            out.add(f"C18/get_new/raises/{exc_sig(new)}", f"{sid!r}.get_new('version') raised {new!r}")
            continue
        if not isinstance(new, Sid):
            out.add("C18/get_new/not-a-sid", f"{sid!r}.get_new('version') = {new!r}")
            continue
        if st_ == "ok" and exp_last is not None:
            n_new = vnum(exp_last.split("/")[keys.index(VKEY)]) + 1
            vs = fmt(n_new)
            if vs is None:
                if new:
                    out.add("C18/get_new/invalid-not-empty", f"{sid!r}.get_new('version') = {new!r}; successor of {exp_last!r} is not representable")
            else:
                exp_fields = dict(pf, **{VKEY: vs})
                exp_t = typed({k: exp_fields[k] for k in keys if k in exp_fields})
                if exp_t and (not new or str(new) != exp_t[1]):
                    out.add("C18/get_new/not-successor-of-last", f"{sid!r}.get_new('version') = {new!r}; last existing {exp_last!r}, expected {exp_t[1]!r}")
        if new:
            if {k: x for k, x in new.fields.items() if k != VKEY} != others:
                out.add("C18/get_new/other-fields-changed", f"{sid!r}.get_new('version') = {new!r}")
            okx, ex = call(new.exists)
            if okx and ex and "*" not in str(new) and ">" not in str(new):
                out.add("C18/get_new/already-exists", f"{sid!r}.get_new('version') = {new!r} which exists")

    # ---- publish loop
    pub = case["publish"]
    pf = dict(pub["fields"])
    if pub["start"] == "noversion":
        pf = {k: pf[k] for k in keys[: keys.index(VKEY)]}
    elif pub["start"] == "fresh":
        pf[VKEY] = prefix + str(3).zfill(width)
    ty = typed(pf)
    if ty and pub["steps"] and not out.discrepancies:
        created = []
        writer = WriteToPaths(cname)
        cur = Sid(ty[0] + ":" + ty[1])
        seen = []
        used = {vnum(f[VKEY]) for a, f in ents if VKEY in f and all(f.get(k) == pf.get(k) for k in keys[:keys.index(VKEY)])}
        for step in range(pub["steps"]):
            ok, new = call(cur.get_new, VKEY)
            out.evaluations += 1
            if not ok:
                out.add(f"C18/publish/get_new-raises/{exc_sig(new)}", f"publish step {step}: {cur!r}.get_new raised {new!r}")
                break
            if not new:
                out.label("publish:ended-empty")
                break
            n = vnum(new.get(VKEY) or "")
            if n is None:
                out.add("C18/publish/no-version", f"publish step {step}: get_new gave {new!r}")
                break
            w = world_now(created)
            try:
                already = bool(w.search(str(new), "all"))
            except refsearch.RefSpilException:
                already = False
            if already or n in seen:
                out.add("C18/publish/version-reused", f"publish step {step}: {cur!r}.get_new = {new!r} which already exists (published so far: {seen})")
                break
            if seen and n <= seen[-1]:
                out.add("C18/publish/not-increasing", f"publish: versions {seen + [n]}")
                break
            okc, r = call(writer.create, new)
            if not okc:
                out.add(f"C18/publish/create-raises/{exc_sig(r)}", f"publish step {step}: create({new!r}) raised {r!r}")
                break
            seen.append(n)
            created.append((new.type, dict(new.fields)))
            cur = new if pub["start"] != "noversion" else cur
        out.label(f"publish:steps:{len(seen)}")
    out.evaluations = max(1, out.evaluations)
    return out


EVALUATORS = {"versions": evaluate}


def run(ctx) -> Stats:
    n = int((300 if ctx.quick else 8000) * ctx.options.get("scale", 1.0))
    return drive(ctx, "versions", cases(), evaluate, max_examples=n)
