"""
C06 - a path resolves only to the Sid that owns it, and never makes Sid() fail.
"""
from __future__ import annotations

from hypothesis import strategies as st

from vp import confmodel, gens
from vp.pbt import Outcome, Stats, call, drive, exc_sig

PROPERTY = "C06"
LEVEL = "exploration"
SHARDS = {"quick": 16, "thorough": 16}
RULE = ("a valid path of a random concrete Sid (reference template rendering), mutated 1-3 times: one field value substituted at one "
        "occurrence (desynchronised) or at all, a component dropped / duplicated, a literal changed (separator, extension dot, fixed folder "
        "case / removal / swap), a mapped value unmapped, trailing component / slash / newline added or removed, root switched to the "
        "other configuration / made relative / emptied, str vs Path argument, plus junk. Oracle: Sid(path=p, config=c) never raises and "
        "typed => str(result.path(c)) == p. non-trivial = mutated path differs from the valid one and still lies under the configured "
        "root and project folder; distinct = (config, path relative to root)")
ASSUMPTIONS = [
    "validity predicate only (no reference path parser): completeness (a conforming path is resolved) is C05's job",
    "when p is passed as a pathlib.Path, 'exactly p' means str(p) (pathlib's own normalisation of the argument)",
]


def _m():
    return confmodel.load()


def pieces(pm, t, f):
    """[(kind, text, key)] of the rendered path after the root, kind in lit / val."""
    out = []
    root = pm.root()
    first = True
    for tok in pm.tokens[t]:
        if tok[0] == "lit":
            text = tok[1]
            if first and text.startswith(root):
                text = text[len(root):]
            first = False
            if text:
                out.append(["lit", text, None])
        else:
            first = False
            out.append(["val", pm.map_value(t, tok[1], f[tok[1]]), tok[1]])
    return out


@st.composite
def cases(draw):
    model = _m()
    m = model.sid
    cname = draw(st.sampled_from(list(model.paths)))
    pm = model.paths[cname]
    t = draw(st.sampled_from(pm.types))
    f = {}
    # one case in six is the path of a SEARCH Sid (what a Finder globs with): several fields are '*' / '>'
    searchy = draw(st.integers(0, 5)) == 0
    for k in m.keys(t):
        spec = m.specs[(t, k)]
        if searchy and draw(st.integers(0, 1)) == 0 and m.accepts_value(t, k, "*"):
            f[k] = draw(st.sampled_from(["*", "*", ">"]))
            continue
        f[k] = draw(st.sampled_from(["x", "x_y", "x.b", "y", "x?y", "x?task=rig", "x#1", "x y", "e\u0301", "\u00e9", "x\\y", "A\u030a", ".x", ".x.b", "{x}", "x{", "{0}", "x}y{", "%s", "x%d"])) if spec.free else draw(gens.concrete_value(spec, digits_dense=True))
    ps = pieces(pm, t, f)
    labels = []
    rootkind = "own"
    as_path = draw(st.integers(0, 5)) == 0
    nmut = draw(st.integers(0, 3))
    for _ in range(nmut):
        op = draw(st.sampled_from(["desync", "desync", "subst-all", "drop-comp", "dup-comp", "lit-sep", "lit-dot", "lit-folder",
                                   "unmap", "append", "trail-slash", "trail-nl", "chop", "root-other", "relative", "lead-junk", "case"]))
        vals = [i for i, p in enumerate(ps) if p[0] == "val"]
        lits = [i for i, p in enumerate(ps) if p[0] == "lit"]
        if op in ("desync", "subst-all") and vals:
            i = draw(st.sampled_from(vals))
            key = ps[i][2]
            spec = m.specs[(t, key)]
            other = draw(st.one_of(gens.concrete_value(spec, digits_dense=True), st.sampled_from(["x", "zz", "*", "", "x?y", "?", "x?" + key + "=zz"])))
            other = pm.map_value(t, key, other) if draw(st.booleans()) else other
            for j in vals:
                if ps[j][2] == key and (op == "subst-all" or j == i):
                    ps[j][1] = other
        elif op in ("lit-sep", "lit-dot", "lit-folder") and lits:
            i = draw(st.sampled_from(lits))
            text = ps[i][1]
            if op == "lit-sep" and "_" in text:
                text = text.replace("_", draw(st.sampled_from(["-", ".", "", "__"])), 1)
            elif op == "lit-dot" and "." in text:
                text = text.replace(".", draw(st.sampled_from(["_", "-", "x", "", ".."])), 1)
            elif op == "lit-folder":
                words = [w for w in text.replace("_", "/").replace(".", "/").split("/") if w.isalpha()]
                if words:
                    w = draw(st.sampled_from(words))
                    allw = [x for x in pm.literal_parts() if x.isalpha() and x != w] or ["X"]
                    text = text.replace(w, draw(st.sampled_from([w.lower(), "", draw(st.sampled_from(allw))])), 1)
            ps[i][1] = text
        elif op == "unmap" and vals:
            i = draw(st.sampled_from(vals))
            ps[i][1] = f[ps[i][2]]
        elif op == "case" and vals:
            i = draw(st.sampled_from(vals))
            ps[i][1] = ps[i][1].swapcase()
        elif op == "append":
            ps.append(["lit", "/" + draw(st.sampled_from(["x", "v001", "OUTPUT", ".hidden", "x.ma", ""])), None])
        elif op == "trail-slash":
            ps.append(["lit", "/", None])
        elif op == "trail-nl":
            ps.append(["lit", draw(st.sampled_from(["\n", " ", "\t", "\x00"])), None])
        elif op == "root-other":
            rootkind = "other"
        elif op == "relative":
            rootkind = draw(st.sampled_from(["none", "dot", "empty-all"]))
        elif op == "lead-junk":
            rootkind = "junk"
        elif op in ("drop-comp", "dup-comp", "chop"):
            rel = "".join(p[1] for p in ps)
            comps = rel.split("/")
            i = draw(st.integers(0, len(comps) - 1))
            if op == "drop-comp" and len(comps) > 1:
                del comps[i]
            elif op == "dup-comp":
                comps.insert(i, comps[i])
            else:
                comps = comps[: max(1, len(comps) - 1)]
            ps = [["lit", "/".join(comps), None]]
        labels.append(op)
    rel = "".join(p[1] for p in ps)
    return {"config": cname, "type": t, "fields": f, "rootkind": rootkind, "rel": rel, "as_path": as_path, "labels": labels}


def full_path(model, case):
    cname = case["config"]
    pm = model.paths[cname]
    rk = case["rootkind"]
    if rk == "own":
        root = pm.root()
    elif rk == "other":
        others = [x for x in model.paths if x != cname]
        root = model.paths[others[0]].root() if others else pm.root()
    elif rk == "none":
        root = ""
    elif rk == "dot":
        root = "./"
    elif rk == "junk":
        root = "/bla" + pm.root()
    else:
        return ""
    return root + case["rel"]


def evaluate(case) -> Outcome:
    from pathlib import Path
    from spil import Sid
    model = _m()
    cname = case["config"]
    pm = model.paths[cname]
    p = full_path(model, case)
    valid = pm.render(case["type"], case["fields"])
    out = Outcome(key=[cname, case["rootkind"], case["rel"]], sample={"config": cname, "root": case["rootkind"], "rel": case["rel"]})
    out.labels = ["mut:" + l for l in case.get("labels", [])]
    arg = Path(p) if case.get("as_path") and p else p
    pstr = str(arg)
    proj_prefix = pm.root() + case["rel"].split("/")[0]
    out.nontrivial = (pstr != valid) and p.startswith(pm.root()) and valid is not None and valid.startswith(proj_prefix)
    ok, sid = call(lambda: Sid(path=arg, config=cname))
    if not ok:
        out.add(f"C06/raises/{exc_sig(sid)}", f"Sid(path={arg!r}, config={cname!r}) raised {sid!r}")
        out.label("raised")
        return out
    if not isinstance(sid, Sid):
        out.add("C06/not-a-sid", f"Sid(path={arg!r}) -> {sid!r}")
        return out
    if not sid:
        out.label("untyped")
        if sid.fields or sid.type:
            out.add("C06/untyped-with-fields", f"Sid(path={arg!r}, config={cname!r}) -> {sid!r} {sid.fields}")
        return out
    out.label("typed")
    ok, back = call(sid.path, cname)
    if not ok:
        out.add(f"C06/owner-path-raises/{exc_sig(back)}", f"{sid!r}.path({cname!r}) raised {back!r}")
    elif back is None or str(back) != pstr:
        sig = "C06/typed-but-not-owner"
        out.add(sig, f"Sid(path={arg!r}, config={cname!r}) = {sid!r} fields {sid.fields}, whose path is {str(back)!r}")
    # the default configuration spelled out or not must agree
    if cname == model.default_config:
        ok, sid2 = call(lambda: Sid(path=arg))
        if not ok or sid2 != sid:
            out.add("C06/default-config-differs", f"Sid(path={arg!r}) = {sid2!r} vs config={cname!r}: {sid!r}")
    return out


EVALUATORS = {"pathresolve": evaluate}


def run(ctx) -> Stats:
    n = int((4000 if ctx.quick else 80000) * ctx.options.get("scale", 1.0))
    return drive(ctx, "pathresolve", cases(), evaluate, max_examples=n)
