"""
C04 - updating a Sid by query or get_with is all-or-nothing and never guesses.
"""
from __future__ import annotations

from hypothesis import strategies as st

from vp import confmodel, gens
from vp.confmodel import SEARCH_SYMBOLS
from vp.pbt import Outcome, Stats, call, drive, exc_sig

PROPERTY = "C04"
LEVEL = "exploration"
SHARDS = {"quick": 16, "thorough": 16}
RULE = ("typed Sid (natural typing, 20% search values) x overlay of 1-3 pairs drawn from: existing key with valid / invalid / "
        "search value, next deeper key(s) of a longer type, a key two levels deeper (gap), key of another basetype, unknown key, "
        "'~'-prefixed variants, None (keyword form only; on present and absent keys); applied as Sid(s?q), get_with(query=q), "
        "get_with(**kw), get_with(key=,value=) and get_with(key=,value=,**kw); compared with an independent decision table (vp.confmodel.apply_query). "
        "non-trivial = overlay changes the key set, or number of fitting types != 1, or uses '~' / None; distinct = (uri, overlay, form)")
ASSUMPTIONS = [
    "query values are non-empty and free of URL metacharacters (% + & = # ; ?) and whitespace",
    "a '?' between two pairs reads like '&' and get_with(query=) accepts a query starting with '?' (query_helper and the get_with documentation); an unapplied query text is kept verbatim",
    "when the overlay fits several types and the old type is not among them, a search Sid may take any of them (statement: 'several types for a non-search Sid' only)",
    "row 'several types, old type not among them, non-search' is unreachable when value patterns of one level are mutually exclusive (documented convention); counted, not required",
]


def _model():
    return confmodel.load().sid


SAFE_JUNK = ["bla", "x", "V1", "v1", "zz9", "w2", "*x", "x*", "**", "<", "a,s"]


@st.composite
def pair(draw, m, t, fields, allow_none):
    """One (key, value) overlay entry."""
    keys = m.keys(t)
    base = m.basetype(t)
    longer = [x for x in m.types if m.basetype(x) == base and m.keys(x)[:len(keys)] == keys and len(m.keys(x)) > len(keys)]
    kind = draw(st.sampled_from(["existing-valid", "existing-valid", "existing-invalid", "existing-search", "deeper",
                                 "deeper", "gap", "foreign", "unknown", "none-present", "none-absent", "colon-value"]))
    if kind.startswith("none") and not allow_none:
        kind = "existing-valid"
    optional = draw(st.sampled_from([False, False, True])) and not kind.startswith("none")
    if kind == "existing-valid":
        k = draw(st.sampled_from(keys))
        v = draw(gens.concrete_value(m.specs[(t, k)], wide=False))
    elif kind == "existing-invalid":
        k = draw(st.sampled_from(keys))
        v = draw(st.sampled_from(SAFE_JUNK))
    elif kind == "existing-search":
        k = draw(st.sampled_from(keys))
        v = draw(st.sampled_from(["*", ">"]))
    elif kind in ("deeper", "gap") and longer:
        lt = draw(st.sampled_from(longer))
        lk = m.keys(lt)
        idx = len(keys) if kind == "deeper" else min(len(lk) - 1, len(keys) + draw(st.integers(1, 2)))
        k = lk[idx]
        v = draw(gens.value(m.specs[(lt, k)], 0.3))
    elif kind == "foreign":
        others = [(x, kk) for x in m.types if m.basetype(x) != base for kk in m.keys(x) if kk not in keys]
        if others:
            x, k = draw(st.sampled_from(others))
            v = draw(gens.value(m.specs[(x, k)], 0.2))
        else:
            k, v = "nokey", "x"
    elif kind == "colon-value":
        # ':' is uri syntax only BEFORE the query: inside a query value it is plain text
        free = [kk for kk in keys if m.specs[(t, kk)].free] + ["nokey"]
        k = draw(st.sampled_from(free))
        v = draw(st.sampled_from(["x:y", "12:30", ":", "a:"]))
    elif kind == "none-present":
        k, v = draw(st.sampled_from(keys)), None
    elif kind == "none-absent":
        allk = sorted({kk for x in m.types for kk in m.keys(x)} - set(keys)) or ["nokey"]
        k, v = draw(st.sampled_from(allk)), None
    else:
        k, v = draw(st.sampled_from(["nokey", "Task", "frame"])), draw(st.sampled_from(["x", "*", "v001"]))
        kind = "unknown"
    if v is not None:
        for c in "%+&=#;? \t\n":
            v = v.replace(c, "")
        v = v or "x"
        if optional:
            v = "~" + v
    return [k, v, kind + ("/opt" if optional else "")]


@st.composite
def cases(draw):
    m = _model()
    t, f = draw(gens.typed_fields(m, search_p=0.2, wide=False))
    if draw(st.integers(0, 9)) == 0:
        # a key that exists with an EMPTY value (get_with documents '' as "empty value"): it exists, '~' values replace it
        cands = [k for k in m.keys(t) if m.accepts_value(t, k, "")]
        if cands:
            g = dict(f)
            g[draw(st.sampled_from(cands))] = ""
            if m.type_first("/".join(g[k] for k in m.keys(t)))[0] == t:
                f = g
    s = "/".join(f[k] for k in m.keys(t))
    form = draw(st.sampled_from(["string", "get_with_query", "kwargs", "kwargs", "key_value", "mixed"]))
    n = 1 if form == "key_value" else draw(st.integers(2 if form == "mixed" else 1, 3))
    pairs = [draw(pair(m, t, f, allow_none=form in ("kwargs", "key_value", "mixed"))) for _ in range(n)]
    if form == "mixed":
        # get_with(key=, value=, **kwargs): which one wins for a repeated name is not stated - names are kept distinct
        pairs = [pairs[0]] + [p for p in pairs[1:] if p[0] != pairs[0][0]]
    use_uri = draw(st.booleans())
    # the library reads a '?' between two pairs like '&' (query_helper), and get_with documents a query "starting with ?"
    joins = [draw(st.sampled_from(["&", "&", "&", "&", "?"])) for _ in range(max(0, n - 1))]
    lead = form == "get_with_query" and draw(st.integers(0, 5)) == 0
    return {"s": s, "form": form, "pairs": pairs, "use_uri": use_uri, "warm": draw(st.integers(0, 2)) == 0,
            "joins": joins, "lead": lead}


def evaluate(case) -> Outcome:
    from spil import Sid
    m = _model()
    s, form, pairs = case["s"], case["form"], case["pairs"]
    out = Outcome(key=[s, form, [p[:2] for p in pairs]], sample={"sid": s, "form": form, "overlay": [p[:2] for p in pairs]})
    et, ef = m.type_first(s)
    if not et:
        out.label("not-in-domain")
        return out
    ok, sid = call(Sid, (et + ":" + s) if case.get("use_uri") else s)
    if not ok or not sid or sid.type != et:
        out.add("C04/base-sid-not-typed-as-reference", f"Sid({s!r}) -> {sid!r}, reference {et}")
        return out
    old_fields = dict(ef)
    for p in pairs:
        out.label("pair:" + p[2])
    before = (sid.type, str(sid), sid.fields)

    if form in ("string", "get_with_query"):
        qpairs = [(k, v) for k, v, _ in pairs if v is not None]
        if not qpairs:
            out.label("empty-query")
            return out
        joins = list(case.get("joins") or [])
        q = ""
        for i, (k, v) in enumerate(qpairs):
            if i:
                q += joins[i - 1] if i - 1 < len(joins) else "&"
            q += f"{k}={v}"
        if "?" in q:
            out.label("question-mark-between-pairs")
        if case.get("lead") and form == "get_with_query":
            q = "?" + q
            out.label("query-starting-with-question-mark")
        if case.get("warm"):
            # the same query text was used by a search before (searches parse, expand and re-serialise queries):
            # applying it to a Sid must not depend on that
            from spil.sid.read.tools import unfold_search
            call(unfold_search, "/".join("*" for _ in s.split("/")) + "?" + q)
            call(unfold_search, s.split("/")[0] + "/**?" + q)
            out.label("warm-up-search-with-same-query")
        if form == "string":
            text = (sid.uri if case.get("use_uri") else s) + "?" + q
            ok, r = call(Sid, text)
            what = f"Sid({text!r})"
        else:
            ok, r = call(lambda: sid.get_with(query=q))
            what = f"{sid!r}.get_with(query={q!r})"
        if not ok:
            out.add(f"C04/query/raises/{exc_sig(r)}", f"{what} raised {r!r}")
            out.nontrivial = True
            return out
        estr, etype, efields, applied, row = m.apply_query(s, et, old_fields, qpairs, q)
        out.label("row:" + row)
        overlay = m.overlay(old_fields, qpairs)
        out.nontrivial = set(overlay) != set(old_fields) or row != "one" or any(str(v).startswith("~") for _, v in qpairs)
        got = (r.type, str(r), r.fields)
        if not applied:
            if r.type != et or r.fields != old_fields:
                out.add("C04/query/unapplied-but-changed", f"{what} -> {r!r} fields {r.fields}; overlay {overlay} fits types {m.types_for_fields(overlay)}; expected type/fields unchanged ({et}, {old_fields})")
            elif str(r) != estr:
                out.add("C04/query/unapplied-query-not-visible", f"{what} -> string {str(r)!r}, expected {estr!r}")
        elif row == "many-without-search":
            if r.type not in etype or r.fields != overlay or "?" in str(r) or str(r) != "/".join(overlay[k] for k in m.keys(r.type)):
                out.add("C04/query/search-multi-type-wrong", f"{what} -> {r!r} fields {r.fields}; expected one of {etype} with fields {overlay}")
        else:
            if got != (etype, estr, dict(efields)) or list(r.fields) != list(efields):
                sig = "C04/query/applied-wrong"
                if r.type == et and r.fields == old_fields and "?" in str(r):
                    sig = "C04/query/not-applied-but-fits"
                out.add(sig, f"{what} -> {r!r} fields {r.fields}; expected {etype}:{estr} fields {dict(efields)} (row {row})")
    else:
        overlay = dict(old_fields)
        kw = {}
        for k, v, _ in pairs:
            kw[k] = v
        for k, v in kw.items():
            if v is None:
                overlay.pop(k, None)
            else:
                overlay[k] = v
        if form == "key_value":
            k, v, _ = pairs[0]
            ok, r = call(lambda: sid.get_with(key=k, value=v))
            what = f"{sid!r}.get_with(key={k!r}, value={v!r})"
        elif form == "mixed":
            k, v, _ = pairs[0]
            rest = {kk: vv for kk, vv, _ in pairs[1:]}
            ok, r = call(lambda: sid.get_with(key=k, value=v, **rest))
            what = f"{sid!r}.get_with(key={k!r}, value={v!r}, **{rest!r})"
            out.label("key-value-and-keywords")
        else:
            ok, r = call(lambda: sid.get_with(**kw))
            what = f"{sid!r}.get_with(**{kw!r})"
        if not ok:
            sig = f"C04/get_with/raises/{exc_sig(r)}"
            out.add(sig, f"{what} raised {r!r}")
            out.nontrivial = True
            return out
        T = m.types_for_fields(overlay)
        out.label("kw-fits:" + ("none" if not T else "one" if len(T) == 1 else "many"))
        out.nontrivial = set(overlay) != set(old_fields) or len(T) != 1 or any(v is None for v in kw.values())
        if not isinstance(r, Sid):
            out.add("C04/get_with/not-a-sid", f"{what} -> {r!r}")
        elif r:
            if r.fields != overlay:
                out.add("C04/get_with/typed-with-other-fields", f"{what} -> {r!r} fields {r.fields}, requested overlay {overlay} (fits {T})")
            elif r.type not in T:
                out.add("C04/get_with/type-not-fitting", f"{what} -> {r!r}, overlay fits {T}")
            elif str(r) != "/".join(overlay[k] for k in m.keys(r.type)):
                out.add("C04/get_with/string-not-canonical", f"{what} -> {str(r)!r}")
        else:
            if T and overlay:
                out.add("C04/get_with/untyped-but-fits", f"{what} -> {r!r}, but overlay {overlay} fits {T}")
            if r.fields or r.type:
                out.add("C04/get_with/untyped-with-fields", f"{what} -> {r!r} has fields {r.fields}")
    # the source Sid is untouched
    if (sid.type, str(sid), sid.fields) != before:
        out.add("C04/source-sid-changed", f"{before} became {(sid.type, str(sid), sid.fields)} after {form} {pairs}")
    return out


EVALUATORS = {"update": evaluate}


def run(ctx) -> Stats:
    n = int((3000 if ctx.quick else 60000) * ctx.options.get("scale", 1.0))
    return drive(ctx, "update", cases(), evaluate, max_examples=n)
