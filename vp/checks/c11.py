"""
C11 - all Finders give the same answer for the same data; junk never changes a result or breaks a search.
"""
from __future__ import annotations

import os
from pathlib import Path

from hypothesis import strategies as st

from vp import confmodel, env, gens, refsearch, reffind, tree
from vp.pbt import Outcome, Stats, call, drive, exc_sig

PROPERTY = "C11"
LEVEL = "exploration"
SHARDS = {"quick": 16, "thorough": 16}
RULE = ("universes of 3-14 path-backed entities materialised as a list of Sids (entities + ancestors that have a path), as a local tree and "
        "as a server tree; 4 searches per universe from the C07 family (with '*', comma, alias, '**', filters) and the C09 family ('>'); each "
        "search is a plain level listing, one a free-value pattern with a literal end next to an 'x' / 'x_y' sibling, one a '*' above a literal free value next to a 'y_x' sibling, one a ',' list above an open leaf level with several leaf types on disk; each "
        "search is run without and with injected junk (stray files / folders, misnamed files, desynchronised duplicate fields, sidecars, files with "
        "another type's extension in the same folder, a file named 'None' in the working directory; a junk item is only created if an independent "
        "strict path parser says it conforms to no template). FindInPaths(local) == FindInPaths(server) == FindInList == reference over the "
        "existing path-backed entities; FindInAll == reference existence model over the configured sources. "
        "non-trivial = some finder returns something and junk is present or the search has >= 2 typed forms; distinct = (universe, junk, search)")
ASSUMPTIONS = [
    "reference finder semantics in vp/reffind.py (constants sources answer from their values under an existing parent)",
    "results compared as sets of strings",
    "'>' searches are compared only when the '>' index is the same in every form; filters on a narrowing key are skipped",
    "junk is restricted to paths that an independent strict parser (vp.confmodel.PathModel.parse) rejects for every template",
]

_sources = {}


def _m():
    return confmodel.load()


def sources(model):
    if "s" not in _sources:
        _sources["s"] = reffind.probe_sources(model)
    return _sources["s"]


JUNK_NAMES = ["tmp", "V001", "v1", ".hidden", "Thumbs.db", "x y", "OUTPUT", "EXPORT", "backup", "v001.bak", "None"]


@st.composite
def cases(draw):
    model = _m()
    m = model.sid
    pm = model.paths[model.default_config]
    ptypes = [t for t in m.types if pm.has_path(t)]
    ents = draw(gens.universe(m, types=ptypes, min_size=3, max_size=14))
    searches = []
    for _ in range(4):
        t, f = ents[draw(st.integers(0, len(ents) - 1))]
        if draw(st.integers(0, 9)) < 3:
            anc = gens.ancestors(m, t, f)
            if anc:
                t, f = anc[draw(st.integers(0, len(anc) - 1))]
        if _ == 0:
            # the plainest search of all: the listing of one level ("everything below this parent")
            segs = m.render(t, f).split("/")
            searches.append({"s": "/".join(segs[:-1] + ["*"]), "labels": ["level-listing"]})
        elif _ == 1 and [k for k in m.keys(t) if m.specs[(t, k)].free]:
            # a pattern with a literal END on a free value ('*x' where 'x' and 'x_y' may both exist), later levels partly open:
            # a glob can split a joined file name at another place than the template does
            keys = m.keys(t)
            k = draw(st.sampled_from([kk for kk in keys if m.specs[(t, kk)].free]))
            v = f[k]
            if draw(st.booleans()):
                # make sure the ambiguous sibling exists: same entity, free value extended by the file-name separator
                sib = dict(f)
                sib[k] = v + draw(st.sampled_from(["_y", "_x", "_w"]))
                if (t, sib) not in ents:
                    ents.append((t, sib))
            g = dict(f)
            g[k] = draw(st.sampled_from(["*" + v, "*" + v[-1:], v[:1] + "*" + v[-1:], "*" + v[-2:]]))
            for kk in keys[2:]:   # (file names join the fields in another order than the Sid does)
                if kk != k and draw(st.integers(0, 2)) == 0:
                    g[kk] = "*"
            searches.append({"s": m.render(t, g), "labels": ["free-value-pattern-with-literal-end"]})
        elif _ == 2 and [i for i, k in enumerate(m.keys(t)) if i >= 3 and m.specs[(t, k)].free]:
            # a literal free value below a searched level, while a sibling exists whose value is that value extended at the
            # FRONT ('x' and 'y_x'): where a folder or file name joins the two levels, a glob matches both
            keys = m.keys(t)
            i = draw(st.sampled_from([i for i, k in enumerate(keys) if i >= 3 and m.specs[(t, k)].free]))
            sib = dict(f)
            sib[keys[i]] = draw(st.sampled_from(["y", "w", "x1"])) + draw(st.sampled_from(["_", "_", "-", "--", "."])) + f[keys[i]]
            if (t, sib) not in ents:
                ents.append((t, sib))
            g = dict(f)
            g[keys[i - 1]] = "*"
            searches.append({"s": m.render(t, g), "labels": ["star-above-literal-free-value"]})
        elif _ == 3 and m.is_leaf_type(t) and len(m.keys(t)) >= 4:
            # a ',' list above an open leaf level, where BOTH alternatives hold files of several leaf types that share folders
            # (scene / movie / cache files): one call then walks several file patterns for several types
            keys = m.keys(t)
            i = draw(st.integers(2, len(keys) - 2))
            other = draw(gens.entity_value(m, t, keys[i]))
            if other == f[keys[i]] or any(c in other for c in ",*>?"):
                searches.append(draw(gens.gt_search(m, t, f)))
            else:
                sibs = [x for x in m.types if m.keys(x) == keys and m.is_leaf_type(x) and pm.has_path(x)]
                for alt in (f, dict(f, **{keys[i]: other})):
                    for x in sibs:
                        lits = [l for l in m.specs[(x, keys[-1])].literals if l not in m.extension_alias and l not in ("*", ">")]
                        if lits and m.accepts(x, [alt[k] for k in keys[:-1]] + [lits[0]]):
                            e = (x, dict(alt, **{keys[-1]: lits[0]}))
                            if e not in ents:
                                ents.append(e)
                g = dict(f)
                g[keys[i]] = ",".join(draw(st.permutations([f[keys[i]], other])))
                g[keys[-1]] = "*"
                searches.append({"s": m.render(t, g), "labels": ["list-above-open-leaf-level"]})
        elif draw(st.integers(0, 9)) < 3:
            searches.append(draw(gens.gt_search(m, t, f)))
        else:
            searches.append(draw(gens.search_from(m, t, f, allow_gt=False, inseg_star=True, allow_malformed=False)))
    junk = []
    for _ in range(draw(st.integers(1, 6))):
        kind = draw(st.sampled_from(["stray-dir", "stray-file", "misnamed", "desync", "sidecar", "sidecar", "other-ext", "none-in-cwd"]))
        junk.append({"kind": kind, "near": draw(st.integers(0, len(ents) - 1)), "name": draw(st.sampled_from(JUNK_NAMES)),
                     "n": draw(st.integers(0, 7)), "as_dir": draw(st.booleans())})
    return {"entities": [[t, f] for t, f in ents], "searches": searches, "junk": junk, "as_str": draw(st.integers(0, 3)) == 0}


def junk_paths(model, cname, ents, junk):
    """Concrete (path, is_dir) list for the junk descriptors, in configuration cname."""
    m = model.sid
    pm = model.paths[cname]
    out = []
    for j in junk:
        t, f = ents[j["near"] % len(ents)]
        p = pm.render(t, f)
        if p is None:
            continue
        is_file = tree.is_file_type(model, t)
        folder = os.path.dirname(p) if is_file else p
        kind = j["kind"]
        if kind == "sidecar":
            # the library's own attribute file of this entity (what WriteToPaths.set creates), for files AND folders.
            # It is data, not an entity - although, next to a folder whose name is a free value, its hidden name
            # would satisfy the folder's template.
            out.append((str(model.data_mod.get_data_json_path(Path(p))), False, True))
            for tt, ff in gens.ancestors(m, t, f):   # ... and of every level above it
                pa = pm.render(tt, ff) if pm.has_path(tt) else None
                if pa:
                    out.append((str(model.data_mod.get_data_json_path(Path(pa))), False, True))
        elif kind in ("stray-dir", "stray-file"):
            out.append((os.path.join(folder, j["name"]), kind == "stray-dir"))
        elif kind == "none-in-cwd":
            out.append((os.path.join(os.getcwd(), "None"), False))
        elif not is_file:
            out.append((os.path.join(folder, j["name"]), j["as_dir"]))
        elif kind == "misnamed":
            base = os.path.basename(p)
            variants = [base.replace("_", "-", 1), base.rsplit(".", 1)[0], base + ".bak", "copy_of_" + base, base.upper(),
                        base.replace(".", "_"), base.replace("_", "__", 1), " " + base]
            out.append((os.path.join(folder, variants[j["n"] % len(variants)]), False))
        elif kind == "desync":
            # replace one occurrence (in the file name) of a value that the template repeats
            base = os.path.basename(p)
            keys = [k for k in m.keys(t) if pm.map_value(t, k, f[k]) in base and m.specs[(t, k)] is not None]
            if keys:
                k = keys[j["n"] % len(keys)]
                spec = m.specs[(t, k)]
                alts = [pm.map_value(t, k, v) for v in (spec.literals or [])] + [p_ + "7" * n_ for p_, n_ in spec.digit_forms] + ["zz"]
                cur = pm.map_value(t, k, f[k])
                alts = [a for a in alts if a != cur and a not in ("*", ">")]
                if alts:
                    out.append((os.path.join(folder, base.replace(cur, alts[j["n"] % len(alts)], 1)), False))
        elif kind == "other-ext":
            exts = sorted({l for (tt, kk), sp in m.specs.items() if kk == m.keys(t)[-1] for l in sp.literals} - {f[m.keys(t)[-1]]})
            if exts:
                out.append((p.rsplit(".", 1)[0] + "." + exts[j["n"] % len(exts)], False))
    return out


def add_junk(model, ents, junk, out: Outcome):
    made = 0
    for cname in model.paths:
        pm = model.paths[cname]
        for item in junk_paths(model, cname, ents, junk):
            path, is_dir = item[0], item[1]
            own_data = len(item) > 2 and item[2]
            if own_data:
                out.label("junk:own-sidecar")
            elif any(pmx.conforms(path) for pmx in model.paths.values()):
                out.label("junk:conforming-skipped")
                continue
            if os.path.lexists(path):
                continue
            os.makedirs(os.path.dirname(path), exist_ok=True)
            if is_dir:
                os.makedirs(path, exist_ok=True)
            else:
                open(path, "w").close()
            made += 1
    return made


def strings(res):
    return sorted({e[2] for e in res.values()})


def evaluate(case) -> Outcome:
    from spil import FindInAll, FindInList, FindInPaths
    model = _m()
    m = model.sid
    ents = [(t, f) for t, f in case["entities"]]
    configs = list(model.paths)
    tree.reset(model)
    none_file = Path(os.getcwd()) / "None"
    if none_file.exists():
        none_file.unlink()
    for c in configs:
        tree.materialise(model, c, ents)
    existing = tree.existing_set(model, model.default_config, ents)
    world = reffind.World(model, existing, sources(model))
    L = sorted(e[2] for e in existing.values())
    out = Outcome(sample={"entities": [m.render(t, f) for t, f in ents][:8], "searches": [x["s"] for x in case["searches"]],
                          "junk": [j["kind"] for j in case["junk"]]})
    out.evaluations = 0
    nt = []

    expected = {}
    for sr in case["searches"]:
        s = sr["s"]
        path, q = refsearch.split_search(s)
        if q and any(k in refsearch.narrowing_keys(m) for k, _ in refsearch.parse_query(q)):
            expected[s] = ("skip", "narrowing-key-filter")
            continue
        try:
            forms = refsearch.unfold(m, s)
            ep = world.search(s, "paths")
            ea = world.search(s, "all")
        except refsearch.RefSpilException:
            expected[s] = ("spil", None)
            continue
        if ep is None or ea is None:
            expected[s] = ("skip", "gt-index-not-uniform")
            continue
        # list semantics: strings matching any form (types irrelevant), '>' per group
        gt = [f for f in forms if ">" in f.string.split("/")]
        cand = {}
        for f in forms:
            for e in world.find_list(L, refsearch.Form(f.type, f.fields, f.string.replace(">", "*"))):
                cand[e] = (None, None, e)
        el = reffind.last_per_group(cand, gt[0].string.split("/").index(">")) if gt else cand
        expected[s] = ("ok", {"paths": strings(ep), "all": strings(ea), "list": sorted(el), "nforms": len(forms)})

    def run_all(phase):
        finders = {"list": lambda: FindInList(list(L)), "all": lambda: FindInAll()}
        for c in configs:
            finders["paths:" + c] = (lambda c=c: FindInPaths(c))
        for sr in case["searches"]:
            s = sr["s"]
            kind, exp = expected[s]
            if kind == "skip":
                out.label("skipped:" + exp)
                continue
            for name, mk in finders.items():
                if case.get("as_str"):
                    ok, got = call(lambda: [x if isinstance(x, str) else ("not-a-string:" + repr(x)) for x in mk().find(s, as_sid=False)])
                else:
                    ok, got = call(lambda: [str(x) for x in mk().find(s)])
                out.evaluations += 1
                if not ok:
                    from spil import SpilException
                    if isinstance(got, SpilException) and kind == "spil":
                        continue
                    out.add(f"C11/{phase}/{name.split(':')[0]}/raises/{exc_sig(got)}", f"[{phase}] {name}.find({s!r}) raised {got!r}; data {L}")
                    continue
                if kind == "spil":
                    continue
                key = name.split(":")[0]
                want = exp[key]
                if sorted(set(got)) != want or len(set(got)) != len(got):
                    sig = f"C11/{phase}/{key}/differs"
                    if len(set(got)) != len(got):
                        sig = f"C11/{phase}/{key}/duplicates"
                    elif set(got) > set(want):
                        sig = f"C11/{phase}/{key}/extra-results"
                    elif set(got) < set(want):
                        sig = f"C11/{phase}/{key}/missing-results"
                    if key == "all" and ">" in s:
                        alt = reffind.search_per_source(world, s)
                        if alt is not None and strings(alt) == sorted(got):
                            sig = "C11/all/last-selected-per-source-not-overall"
                    out.add(sig, f"[{phase}] {name}.find({s!r})\n got      {sorted(got)}\n expected {want}\n data {L}")
                if got and (phase == "junk" or exp["nforms"] >= 2):
                    nt.append([s, phase])
                # the same search given as a Sid object
                if phase == "clean" and "?" not in s:
                    from spil import Sid
                    so = Sid(s)
                    if so and str(so) == s:
                        ok2, got2 = call(lambda: [str(x) for x in mk().find(so)])
                        out.evaluations += 1
                        if not ok2:
                            out.add(f"C11/sid-object/{key}/raises/{exc_sig(got2)}", f"{name}.find(Sid({s!r})) raised {got2!r}")
                        elif sorted(got2) != sorted(got):
                            out.add(f"C11/sid-object/{key}/differs-from-string-search", f"{name}.find(Sid({s!r})) = {sorted(got2)}; find({s!r}) = {sorted(got)}")

    run_all("clean")

    # configurations must not be mixed up: an entity that only the LAST configuration's tree holds is found there and only there
    if len(configs) >= 2 and ents:
        extra_t, extra_f = ents[0]
        pm_last = model.paths[configs[-1]]
        fk = [k for k in m.keys(extra_t) if m.specs[(extra_t, k)].free]
        if fk and pm_last.has_path(extra_t):
            only_f = dict(extra_f, **{fk[-1]: "onlyhere"})
            tree.materialise(model, configs[-1], [(extra_t, only_f)])
            s_only = m.render(extra_t, only_f)
            for c in configs:
                ok, got = call(lambda: [str(x) for x in FindInPaths(c).find(s_only)])
                out.evaluations += 1
                want = [s_only] if c == configs[-1] else []
                if not ok:
                    out.add(f"C11/config-mixup/raises/{exc_sig(got)}", f"FindInPaths({c!r}).find({s_only!r}) raised {got!r}")
                elif got != want:
                    out.add("C11/config-mixup/entity-of-one-tree-seen-through-another-configuration",
                            f"{s_only!r} exists only in the {configs[-1]!r} tree; FindInPaths({c!r}).find -> {got}, expected {want}")
            out.label("config-asymmetry-probe")
            # back to identical trees for the junk phase
            tree.reset(model)
            for c in configs:
                tree.materialise(model, c, ents)

    made = add_junk(model, ents, case["junk"], out)
    out.label(f"junk-items:{min(made, 9)}")
    for j in case["junk"]:
        out.label("junk:" + j["kind"])
    run_all("junk")
    if none_file.exists():
        none_file.unlink()
    out.nontrivial = bool(nt)
    out.key = [L, [j for j in case["junk"]], nt]
    out.evaluations = max(1, out.evaluations)
    return out


EVALUATORS = {"finders": evaluate}


def run(ctx) -> Stats:
    n = int((200 if ctx.quick else 6000) * ctx.options.get("scale", 1.0))
    return drive(ctx, "finders", cases(), evaluate, max_examples=n)
