"""
C02 - string, fields, query, uri, repr and copy forms of a typed Sid denote the same Sid.
"""
from __future__ import annotations

import itertools

from hypothesis import strategies as st

from vp import confmodel, gens
from vp.pbt import Outcome, Stats, call, drive, enumerate_cases, exc_sig

PROPERTY = "C02"
LEVEL = "exploration"
SHARDS = {"quick": 16, "thorough": 16}
RULE = ("typed Sids built by natural typing from per-key value sets of every configured type (closed vocabularies incl. "
        "aliases, digit values, free names incl. '_-.+ quote backslash unicode' and (1 in 12) an empty value, each key optionally '*' or '>'), "
        "Hypothesis-sampled; in the thorough tier additionally the exhaustive product of reduced per-key value sets for every type. "
        "Each Sid is rebuilt from uri, shuffled fields, query string, eval(repr()) and copy(); pairs are compared for "
        "equality <=> (type, fields) equality. non-trivial = contains a search symbol, an alias, belongs to a type whose key "
        "set is shared with another type, or has a free value outside [a-z0-9]; distinct = distinct (uri) of the first Sid")
ASSUMPTIONS = [
    "domain = strings whose natural (first-match) type exists according to the reference model",
    "query round trip only for non-empty values without whitespace or any of % + & = # ; ? and not starting with '~' (the property's own restriction; a leading '~' is query syntax)",
    "eval(repr(sid)) is evaluated in a namespace that contains only Sid",
]

QUERY_UNSAFE = set("%+&=#;? \t\n\r\x0b\x0c\x00")   # a LEADING '~' is query syntax (optional value), see below


def _model():
    return confmodel.load().sid


def snap(sid):
    return (sid.type, str(sid), list(sid.fields.items()))


def _shared_keyset_types(m):
    seen = {}
    for t in m.types:
        seen.setdefault(frozenset(m.keys(t)), []).append(t)
    return {t for ts in seen.values() if len(ts) > 1 for t in ts}


@st.composite
def cases(draw):
    m = _model()
    n = draw(st.sampled_from([1, 1, 2, 3]))
    items = []
    base_t = draw(st.sampled_from(m.types))
    for i in range(n):
        # later members are often of the same type / a sibling type, to make equal-looking pairs likely
        if i and draw(st.booleans()):
            t, f = items[0]["_tf"]
            f = dict(f)
            k = draw(st.sampled_from(list(f)))
            f[k] = draw(gens.value(m.specs[(t, k)], 0.3, True))
        else:
            tt = base_t if draw(st.booleans()) else draw(st.sampled_from(m.types))
            t, f = draw(gens.typed_fields(m, [tt], search_p=0.2, wide=True))
        if draw(st.integers(0, 11)) == 0:
            # a key present with an EMPTY value (accepted by the free patterns; the query form cannot express it and is skipped)
            cands = [k for k in m.keys(t) if m.accepts_value(t, k, "")]
            if cands:
                f = dict(f)
                f[draw(st.sampled_from(cands))] = ""
        s = "/".join(f[k] for k in m.keys(t))
        forced = draw(st.sampled_from([None, None, None, "same", "sibling"])) if i else None
        items.append({"s": s, "forced": forced, "_tf": (t, f), "perm": draw(st.randoms(use_true_random=False)).random()})
    out = []
    for it in items:
        t, f = it.pop("_tf")
        if it["forced"] == "same":
            it["uri"] = t + ":" + it["s"]
        elif it["forced"] == "sibling":
            sibs = [x for x in m.types if set(m.keys(x)) == set(m.keys(t))]
            it["uri"] = draw(st.sampled_from(sibs)) + ":" + it["s"]
        else:
            it["uri"] = it["s"]
        it.pop("forced")
        out.append(it)
    return {"items": out}


def _shuffled(fields: dict, r: float) -> dict:
    keys = list(fields)
    # deterministic permutation from r
    import random
    rnd = random.Random(int(r * 1e9))
    rnd.shuffle(keys)
    return {k: fields[k] for k in keys}


def check_one(m, out: Outcome, text: str, perm: float, first: bool):
    from spil import Sid
    ok, sid = call(Sid, text)
    if not ok:
        out.add(f"C02/raises/Sid/{exc_sig(sid)}", f"Sid({text!r}) raised {sid!r}")
        return None
    if ":" in text:
        T, S = text.split(":", 1)
        et, ef = m.type_forced(S, T)
    else:
        S = text
        et, ef = m.type_first(text)
    if not et:
        out.label("not-in-domain")
        return None
    if not sid or sid.type != et:
        out.add("C02/typing-differs-from-reference", f"Sid({text!r}) -> {sid!r}, reference type {et}")
        return None
    base = snap(sid)
    t = sid.type
    fields = sid.fields
    # canonical rendering
    canon = "/".join(fields[k] for k in m.keys(t)) if set(fields) == set(m.keys(t)) else None
    if str(sid) != canon or list(fields) != m.keys(t):
        out.add("C02/string-not-canonical", f"{sid!r}: str {str(sid)!r}, fields {fields}, canonical {canon!r}")
    natural = m.type_first(S)[0] == t

    def same(what, other):
        if not isinstance(other, Sid):
            out.add(f"C02/{what}/not-a-sid", f"{what} of {sid!r} gave {other!r}")
            return
        if snap(other) != base or not (other == sid) or (other != sid):
            out.add(f"C02/{what}/differs", f"{what} of {sid!r} (uri {sid.uri!r}) gave {other!r} {snap(other)} expected {base}")

    ok, r = call(lambda: Sid(sid.uri))
    same("uri", r) if ok else out.add(f"C02/uri/raises/{exc_sig(r)}", f"Sid({sid.uri!r}) raised {r!r}")

    ok, r = call(lambda: sid.copy())
    same("copy", r) if ok else out.add(f"C02/copy/raises/{exc_sig(r)}", f"{sid!r}.copy() raised {r!r}")

    ok, r = call(lambda: eval(repr(sid), {"Sid": Sid}))
    same("repr", r) if ok else out.add(f"C02/repr/raises/{type(r).__name__}", f"eval({repr(sid)!r}) raised {r!r}")

    # The dictionary and query forms do not carry the type: they denote the Sid of the first type
    # fitting the fields. The statement quantifies over natural (first-match) typing; for a forced type
    # that is not the first one fitting the fields only the uri / repr / copy forms are demanded.
    first_for_fields = (m.types_for_fields(dict(fields)) or [None])[0]
    if first_for_fields == t:
        ok, r = call(lambda: Sid(fields=_shuffled(fields, perm)))
        same("fields", r) if ok else out.add(f"C02/fields/raises/{exc_sig(r)}", f"Sid(fields={_shuffled(fields, perm)}) raised {r!r}")
        vals = list(fields.values())
        if all(v and not (set(v) & QUERY_UNSAFE) and not v.startswith("~") for v in vals):
            out.label("query-roundtrip")
            ok, q = call(sid.as_query)
            if not ok:
                out.add(f"C02/as_query/raises/{exc_sig(q)}", f"{sid!r}.as_query() raised {q!r}")
            else:
                ok, r = call(lambda: Sid(query=q))
                same("query", r) if ok else out.add(f"C02/query/raises/{exc_sig(r)}", f"Sid(query={q!r}) raised {r!r}")
    else:
        out.label("forced-non-first-type")

    if first:
        shared = _shared_keyset_types(m)
        vals = list(fields.values())
        aliases = set(m.extension_alias)
        nt = (any(v in ("*", ">") for v in vals) or any(v in aliases for v in vals) or t in shared
              or any(any(not (c.isascii() and (c.islower() or c.isdigit())) for c in v)
                     for (k, v) in fields.items() if m.specs[(t, k)].free))
        out.nontrivial = bool(nt)
        out.key = sid.uri
        out.label("type:" + t, "natural" if natural else "forced")
        if any(v in ("*", ">") for v in vals):
            out.label("search")
        if any(v == "" for v in vals):
            out.label("empty-value")
            out.nontrivial = True
    return sid


def evaluate(case) -> Outcome:
    m = _model()
    out = Outcome(sample=[it["uri"] for it in case["items"]])
    sids = []
    for i, it in enumerate(case["items"]):
        sid = check_one(m, out, it["uri"], it.get("perm", 0.5), first=(i == 0))
        if sid is not None:
            sids.append(sid)
    out.evaluations = max(1, len(case["items"]))
    # equality <=> (type, fields)
    for a, b in itertools.combinations(sids, 2):
        eq_model = (a.type, a.fields) == (b.type, b.fields)
        ok, eq = call(lambda: a == b)
        ok2, ne = call(lambda: a != b)
        if not ok or not ok2:
            out.add("C02/eq/raises", f"{a!r} == {b!r} raised")
            continue
        if eq != eq_model or ne == eq:
            out.add("C02/eq/not-type-and-fields", f"{a!r} == {b!r} is {eq}, (type, fields) equal is {eq_model}")
        if eq_model:
            out.label("pair-equal")
        else:
            out.label("pair-different")
    return out


EVALUATORS = {"forms": evaluate}


def reduced_values(m, t, k):
    spec = m.specs[(t, k)]
    vals = []
    if spec.free:
        vals = ["x", "x_y.b-1", "it's\\é"]
    else:
        vals = list(spec.literals)
        for p, n in spec.digit_forms:
            vals += [p + "1".zfill(n), p + "9" * n]
    return vals + ["*", ">"]


def product_cases(m, ctx):
    idx = 0
    for t in m.types:
        sets = [reduced_values(m, t, k) for k in m.keys(t)]
        for combo in itertools.product(*sets):
            idx += 1
            if idx % ctx.nshards != ctx.shard:
                continue
            yield {"items": [{"s": "/".join(combo), "uri": "/".join(combo), "perm": (idx % 997) / 997.0}]}


def run(ctx) -> Stats:
    scale = ctx.options.get("scale", 1.0)
    n = int((2500 if ctx.quick else 40000) * scale)
    stats = drive(ctx, "forms", cases(), evaluate, max_examples=n)
    if not ctx.quick:
        m = _model()
        enumerate_cases(ctx, "forms", product_cases(m, ctx), evaluate, stats)
        stats.notes.append("thorough: exhaustive product of reduced per-key value sets enumerated for every type")
    return stats
