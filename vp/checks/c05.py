"""
C05 - Sid -> path -> Sid is the identity in every path configuration.
"""
from __future__ import annotations

from hypothesis import strategies as st

from vp import confmodel, gens
from vp.pbt import Outcome, Stats, call, drive, exc_sig

PROPERTY = "C05"
LEVEL = "exploration"
SHARDS = {"quick": 16, "thorough": 16}
RULE = ("concrete Sids of every type (with and without a path template), free values from a collision-seeking token set "
        "(x, y, the file-name separators '_' '.' '-', fixed folder names, mapped names and their sid values, task / ext / "
        "version-looking tokens, joined with '_' or '.'), node / no-node cache files in pairs; both path configurations, odd shards touch "
        "the second configuration first. Checked: round trip Sid(path=sid.path(c), config=c) == sid, purity (equal Sids rebuilt from uri / "
        "fields and repeated calls give the same path; positional = keyword), injectivity via a run-wide path -> uri map, relative paths equal "
        "across configurations, independent template rendering, None for types without template and untyped Sids. "
        "non-trivial = a free value contains a separator or equals a literal / mapped token, or the type is a cache type; distinct = (uri)")
ASSUMPTIONS = [
    "free values that are exactly '', '.' or '..' are excluded (pathlib normalises them away; not names a folder can have)",
    "expected path text = the raw path template with mapped values substituted (vp.confmodel.PathModel.render), normalised by pathlib",
]

ODD_CHARS = list("\\ '()[]{}$^|+~!@#%&=;") + ["\\\\", "\\x", "e\u0301", "\u00e9", "\u212b"]

_paths_seen = {}   # (config, path) -> uri   (run-wide, per worker)


def _m():
    return confmodel.load()


def json_key(obj):
    return repr(sorted((repr(k), repr(v)) for k, v in obj.items())) if isinstance(obj, dict) else repr(obj)


def tokens(model):
    toks = {"x", "y", "x1", "X"}
    for pm in model.paths.values():
        toks.update(pm.literal_parts()[-6:])
        for key, mp in pm.mapping.items():
            if isinstance(mp, dict):
                toks.update(mp.keys())
                toks.update(mp.values())
    for spec in model.sid.specs.values():
        toks.update(spec.literals[:3])
        for p, n in spec.digit_forms:
            toks.add(p + "1".zfill(n))
    return sorted(t for t in toks if t and "/" not in t)


@st.composite
def tricky_name(draw):
    model = _m()
    toks = tokens(model)
    n = draw(st.integers(1, 3))
    parts = [draw(st.sampled_from(toks)) for _ in range(n)]
    sep = draw(st.sampled_from(["_", "_", ".", "-", ""]))
    name = sep.join(parts)
    if draw(st.integers(0, 9)) == 0:
        name = draw(st.sampled_from(["_", "-", "x_", "_x", "x.", "x..y", "x__y", "a b", ".x", ".x.b", "..x", ".x.data.json"]))
    if draw(st.integers(0, 7)) == 0:
        # characters that are ordinary in a POSIX file name but special somewhere else (other platforms' separator,
        # regular expressions, shells, urls)
        c = draw(st.sampled_from(ODD_CHARS))
        pos = draw(st.integers(0, len(name)))
        name = name[:pos] + c + name[pos:]
    if name in ("", ".", ".."):
        name = "x"
    return name


@st.composite
def cases(draw):
    model = _m()
    m = model.sid
    t = draw(st.sampled_from(m.types))
    f = {}
    for k in m.keys(t):
        spec = m.specs[(t, k)]
        if spec.free:
            f[k] = draw(st.one_of(tricky_name(), st.sampled_from(gens.SMALL_NAMES)))
        else:
            f[k] = draw(gens.concrete_value(spec))
    items = [[t, f]]
    # node / no-node pair: same values, sibling type with one key more / less
    sibs = [x for x in m.types if x != t and m.basetype(x) == m.basetype(t) and
            (set(m.keys(x)) - set(m.keys(t)) or set(m.keys(t)) - set(m.keys(x))) and abs(len(m.keys(x)) - len(m.keys(t))) == 1
            and m.keys(x)[-1] == m.keys(t)[-1]]
    if sibs and draw(st.booleans()):
        x = draw(st.sampled_from(sibs))
        g = {}
        for k in m.keys(x):
            if k in f and m.accepts_value(x, k, f[k]):
                g[k] = f[k]
            else:
                spec = m.specs[(x, k)]
                g[k] = draw(tricky_name()) if spec.free else draw(gens.concrete_value(spec))
        items.append([x, g])
    return {"items": items}


def evaluate(case) -> Outcome:
    from pathlib import Path
    from spil import Sid
    model = _m()
    m = model.sid
    out = Outcome()
    out.sample = [m.render(t, f) for t, f in case["items"]]
    out.evaluations = 0
    for idx, (t, f) in enumerate(case["items"]):
        s = m.render(t, f)
        uri = t + ":" + s
        ok, sid = call(Sid, uri)
        if not ok or not sid or sid.type != t or sid.fields != f:
            out.add("C05/base-sid-not-typed", f"Sid({uri!r}) -> {sid!r}")
            continue
        free_vals = [v for k, v in f.items() if m.specs[(t, k)].free]
        toks = set(tokens(model))
        odd = any(c in v for v in free_vals for c in "\\ '()[]{}$^|+~!@#%&=;")
        if odd and idx == 0:
            out.label("odd-character-in-name")
        nt = odd or any(any(c in v for c in "_.-") or v in toks for v in free_vals) or "cache" in t
        if idx == 0:
            out.nontrivial = nt
            out.key = uri
            out.label("type:" + t)
        rels = {}
        for cname, pm in model.paths.items():
            out.evaluations += 1
            ok, p = call(sid.path, cname)
            if not ok:
                out.add(f"C05/path/raises/{exc_sig(p)}", f"{sid!r}.path({cname!r}) raised {p!r}")
                continue
            exp = pm.render(t, f)
            if not pm.has_path(t):
                out.label("no-template")
                if p is not None:
                    out.add("C05/path-for-type-without-template", f"{sid!r}.path({cname!r}) = {p!r} but the configuration has no path template for {t}")
                continue
            if p is None:
                out.add("C05/path-none-for-templated-type", f"{sid!r}.path({cname!r}) is None; template rendering gives {exp!r}")
                continue
            if not isinstance(p, Path):
                out.add("C05/path-not-a-Path", f"{sid!r}.path({cname!r}) = {p!r}")
                continue
            if exp is not None and str(Path(exp)) != str(p):
                out.add("C05/path-differs-from-template-rendering", f"{sid!r}.path({cname!r}) = {str(p)!r}, template rendering {str(Path(exp))!r}")
            # purity
            ok2, p2 = call(sid.path, cname)
            ok3, p3 = call(lambda: Sid(fields=dict(reversed(list(f.items())))).path(cname)) if (m.types_for_fields(f) or [None])[0] == t else (True, p)
            ok4, p4 = call(lambda: Sid(sid.uri).path(config=cname))
            for what, okx, px in (("second call", ok2, p2), ("Sid rebuilt from fields", ok3, p3), ("keyword config on Sid rebuilt from uri", ok4, p4)):
                if not okx:
                    out.add(f"C05/purity/raises/{type(px).__name__}", f"{what}: {sid!r}.path({cname!r}) raised {px!r}")
                elif px != p:
                    out.add("C05/purity/path-differs", f"{what}: {px!r} vs {p!r} for {sid!r} config {cname}")
            if cname == model.default_config:
                okd, pd = call(sid.path)
                if not okd or pd != p:
                    out.add("C05/default-config-differs", f"{sid!r}.path() = {pd!r}, path({cname!r}) = {p!r}")
            # round trip
            ok5, back = call(lambda: Sid(path=p, config=cname))
            if not ok5:
                out.add(f"C05/roundtrip/raises/{exc_sig(back)}", f"Sid(path={str(p)!r}, config={cname!r}) raised {back!r}")
            elif back != sid or back.type != t or back.fields != f:
                out.add("C05/roundtrip/differs", f"Sid(path={str(p)!r}, config={cname!r}) = {back!r} {back.fields}, expected {sid!r}")
            ok6, back2 = call(lambda: Sid(path=str(p), config=cname))
            if ok6 and ok5 and back2 != back:
                out.add("C05/roundtrip/str-vs-Path", f"Sid(path=str) {back2!r} vs Sid(path=Path) {back!r}")
            # injectivity
            prev = _paths_seen.setdefault((cname, str(p)), uri)
            if prev != uri:
                out.add("C05/injectivity/two-sids-one-path", f"{uri!r} and {prev!r} both map to {str(p)!r} (config {cname})")
            root = pm.root()
            if str(p).startswith(root):
                rels[cname] = str(p)[len(root):]
            else:
                out.add("C05/path-outside-configured-root", f"{str(p)!r} does not start with {root!r}")
        # "differ only by the configured root" is a statement about configurations that share templates and value mapping
        # (as the shipped ones do); configurations with their own spelling are compared with the reference rendering above only
        groups = {}
        for cname, rel in rels.items():
            pmx = model.paths[cname]
            layout = (json_key({k: v[len(pmx.root()):] if isinstance(v, str) and v.startswith(pmx.root()) else v for k, v in pmx.templates_raw.items()}),
                      json_key(pmx.mapping), json_key(pmx.defaults))
            groups.setdefault(layout, {})[cname] = rel
        for g in groups.values():
            if len(set(g.values())) > 1:
                out.add("C05/configs-differ-beyond-root", f"{sid!r}: relative paths {g}")
        if len(groups) > 1:
            out.label("configurations-with-own-layout")
    # untyped
    ok, p = call(lambda: Sid("bla/" + case["items"][0][1][m.keys(case["items"][0][0])[0]]).path())
    if not ok or p is not None:
        out.add("C05/untyped-path-not-none", f"untyped Sid path gave {p!r}")
    out.evaluations = max(1, out.evaluations)
    return out


EVALUATORS = {"pathroundtrip": evaluate}


def run(ctx) -> Stats:
    model = _m()
    # configuration load order: odd shards touch the last configuration first
    from spil import Sid
    names = list(model.paths)
    first = names[-1] if ctx.shard % 2 else names[0]
    probe = Sid(model.sid.projects[0]) if model.sid.projects else None
    if probe:
        probe.path(first)
    n = int((3000 if ctx.quick else 60000) * ctx.options.get("scale", 1.0))
    stats = drive(ctx, "pathroundtrip", cases(), evaluate, max_examples=n)
    stats.labels["first-config:" + first] = stats.labels.get("first-config:" + first, 0) + 1
    return stats
