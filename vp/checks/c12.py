"""
C12 - exists, find_one, children and siblings agree with find (over histories with created entities).
"""
from __future__ import annotations

from hypothesis import strategies as st

from vp import confmodel, gens, refsearch, reffind, tree
from vp.pbt import Outcome, Stats, call, drive, exc_sig

PROPERTY = "C12"
LEVEL = "exploration"
SHARDS = {"quick": 16, "thorough": 16}
RULE = ("histories of 4-14 steps over a generated universe: create(entity) materialises a path-backed entity in the local tree, "
        "query(search) checks on FindInList / FindInPaths / FindInAll that exists(s) == bool(list(find(s))), find_one(s) == first(find(s)) "
        "(empty Sid / None when nothing) and that as_sid=False yields the strings of the as_sid=True results (one query in four is given as a Sid object); probe(sid) checks sid.exists(), "
        "children(), siblings() against the reference existence model (existing, non-existing, leaf and untyped Sids) and that every existing "
        "file-system backed entity has an existing parent. Every query / probe is evaluated on the state reached so far (new Finder instances). "
        "non-trivial = history with a create between two queries / probes; distinct = distinct history")
ASSUMPTIONS = [
    "reference existence model in vp/reffind.py: path-backed types exist when materialised (with all ancestors), constants-backed levels exist under an existing parent",
    "children / siblings are compared as sets of strings",
    "searches with a filter on a narrowing key, or whose '>' index differs between forms, only get the internal-consistency checks",
]

_sources = {}


def _m():
    return confmodel.load()


def sources(model):
    if "s" not in _sources:
        _sources["s"] = reffind.probe_sources(model)
    return _sources["s"]


@st.composite
def cases(draw):
    model = _m()
    m = model.sid
    pm = model.paths[model.default_config]
    ptypes = [t for t in m.types if pm.has_path(t)]
    ents = draw(gens.universe(m, types=ptypes, min_size=3, max_size=10))
    initial = draw(st.integers(0, len(ents) - 1))
    steps = []
    pool = list(range(len(ents)))
    for _ in range(draw(st.integers(4, 14))):
        kind = draw(st.sampled_from(["create", "query", "query", "probe", "probe"]))
        i = draw(st.sampled_from(pool))
        t, f = ents[i]
        if kind == "create":
            steps.append({"op": "create", "i": i})
        elif kind == "query":
            if draw(st.integers(0, 9)) < 2:
                sr = draw(gens.gt_search(m, t, f))
            else:
                sr = draw(gens.search_from(m, t, f, allow_gt=False, inseg_star=False, allow_malformed=True))
            steps.append({"op": "query", "s": sr["s"], "obj": draw(st.integers(0, 3)) == 0})
        else:
            which = draw(st.sampled_from(["entity", "ancestor", "deeper", "sibling-value", "untyped", "leaf"]))
            tt, ff = t, dict(f)
            if which == "ancestor":
                anc = gens.ancestors(m, t, f)
                if anc:
                    tt, ff = anc[draw(st.integers(0, len(anc) - 1))]
            elif which == "deeper":
                longer = [x for x in m.types if m.basetype(x) == m.basetype(t) and m.keys(x)[:len(m.keys(t))] == m.keys(t)
                          and len(m.keys(x)) == len(m.keys(t)) + 1]
                if longer:
                    x = draw(st.sampled_from(longer))
                    k = m.keys(x)[-1]
                    ff[k] = draw(gens.entity_value(m, x, k))
                    tt = x
            elif which == "sibling-value":
                k = draw(st.sampled_from(m.keys(t)))
                ff[k] = draw(gens.entity_value(m, t, k))
            if which == "untyped":
                steps.append({"op": "probe", "sid": "bla/" + m.render(t, f)})
            else:
                steps.append({"op": "probe", "sid": m.render(tt, ff)})
    if draw(st.integers(0, 3)) == 0:
        # a leaf file and, next to it, a deeper leaf whose extra (free) level carries the file's last value as its name
        # ('.../w/abc' and '.../w/abc/vdb'): the leaf still has no children
        pairs = [(y, x) for y in ptypes for x in ptypes
                 if m.is_leaf_type(y) and m.is_leaf_type(x) and len(m.keys(x)) == len(m.keys(y)) + 1
                 and m.keys(x)[:-2] == m.keys(y)[:-1] and m.keys(x)[-1] == m.keys(y)[-1] and m.specs[(x, m.keys(x)[-2])].free]
        if pairs:
            y, x = draw(st.sampled_from(pairs))
            ky, kx = m.keys(y), m.keys(x)
            fy = {k: draw(gens.entity_value(m, y, k)) for k in ky}
            fx = {k: fy[k] for k in ky[:-1]}
            fx[kx[-2]] = fy[ky[-1]]
            fx[kx[-1]] = draw(gens.entity_value(m, x, kx[-1]))
            if m.accepts(x, [fx[k] for k in kx]) and m.type_first(m.render(y, fy))[0] == y:
                ents = list(ents) + [(y, fy), (x, fx)]
                steps = [{"op": "create", "i": len(ents) - 2}, {"op": "create", "i": len(ents) - 1}] + steps + \
                        [{"op": "probe", "sid": m.render(y, fy)}]
    return {"entities": [[t, f] for t, f in ents], "initial": initial, "steps": steps}


def strings(res):
    return sorted({e[2] for e in res.values()})


def evaluate(case) -> Outcome:
    from spil import FindInAll, FindInList, FindInPaths, Sid, SpilException
    model = _m()
    m = model.sid
    cname = model.default_config
    ents = [(t, f) for t, f in case["entities"]]
    tree.reset(model)
    created = [ents[i] for i in range(min(case["initial"], len(ents)))]
    tree.materialise(model, cname, created)
    out = Outcome(sample={"entities": [m.render(t, f) for t, f in ents][:6], "steps": case["steps"][:8]})
    out.evaluations = 0
    seen_read = False
    create_between = False
    pending_create = False

    def world_now():
        existing = tree.existing_set(model, cname, created)
        return reffind.World(model, existing, sources(model)), sorted(e[2] for e in existing.values())

    for step in case["steps"]:
        if step["op"] == "create":
            e = ents[step["i"] % len(ents)]
            if e not in created:
                created.append(e)
                tree.materialise(model, cname, [e])
                if seen_read:
                    pending_create = True
            continue
        world, L = world_now()
        if pending_create:
            create_between = True
        seen_read = True

        if step["op"] == "query":
            s = step["s"]
            if step.get("obj"):
                # the same search given as a Sid OBJECT (typed by the first template accepting the string, or untyped)
                oks, so = call(Sid, s)
                if oks and str(so) == s:
                    s = so
                    out.label("search-as-sid-object")
            # the list also holds entries that no template types but that a search may match (unknown extension, junk level)
            noisy = list(L)
            for e_ in L[:4]:
                segs_ = e_.split("/")
                noisy.insert(0, "/".join(segs_[:-1] + ["zz9"]))
                noisy.append(e_ + "/zz9")
            finders = {"list": lambda: FindInList(list(noisy)), "paths": lambda: FindInPaths(cname), "all": lambda: FindInAll()}
            for name, mk in finders.items():
                ok, found = call(lambda: list(mk().find(s)))
                out.evaluations += 1
                spil = False
                if not ok:
                    if isinstance(found, SpilException):
                        spil = True
                    else:
                        out.add(f"C12/{name}/find/raises/{exc_sig(found)}", f"{name}.find({s!r}) raised {found!r}")
                        continue
                # exists
                ok2, ex = call(lambda: mk().exists(s))
                ok3, one = call(lambda: mk().find_one(s))
                ok4, one_s = call(lambda: mk().find_one(s, as_sid=False))
                ok5, strs = call(lambda: list(mk().find(s, as_sid=False)))
                if spil:
                    for what, okx, vx in (("exists", ok2, ex), ("find_one", ok3, one)):
                        if okx:
                            out.add(f"C12/{name}/{what}/no-error-where-find-raises", f"{name}.{what}({s!r}) = {vx!r} but find raises {found!r}")
                        elif not isinstance(vx, SpilException):
                            out.add(f"C12/{name}/{what}/raises/{exc_sig(vx)}", f"{name}.{what}({s!r}) raised {vx!r}")
                    continue
                for what, okx, vx in (("exists", ok2, ex), ("find_one", ok3, one), ("find_one-str", ok4, one_s), ("find-str", ok5, strs)):
                    if not okx:
                        out.add(f"C12/{name}/{what}/raises/{exc_sig(vx)}", f"{name}.{what}({s!r}) raised {vx!r} while find gives {found!r}")
                if not (ok2 and ok3 and ok4 and ok5):
                    continue
                if ex is not bool(found) :
                    out.add(f"C12/{name}/exists-differs-from-find", f"{name}.exists({s!r}) = {ex!r}, find yields {found!r}")
                if found:
                    if not isinstance(one, Sid) or one != found[0] or str(one) != str(found[0]):
                        out.add(f"C12/{name}/find_one-not-first", f"{name}.find_one({s!r}) = {one!r}, first of find is {found[0]!r}")
                    if one_s != str(found[0]):
                        out.add(f"C12/{name}/find_one-str-not-first", f"{name}.find_one({s!r}, as_sid=False) = {one_s!r}, first of find is {str(found[0])!r}")
                else:
                    if not isinstance(one, Sid) or one or str(one) != "":
                        out.add(f"C12/{name}/find_one-not-empty", f"{name}.find_one({s!r}) = {one!r} although find yields nothing")
                    if one_s not in (None, ""):
                        out.add(f"C12/{name}/find_one-str-not-empty", f"{name}.find_one({s!r}, as_sid=False) = {one_s!r} although find yields nothing")
                if strs != [str(x) for x in found]:
                    out.add(f"C12/{name}/as_sid-false-differs", f"{name}.find({s!r}, as_sid=False) = {strs}, as_sid=True gives {[str(x) for x in found]}")
                out.label("query:" + ("hit" if found else "empty"))
        else:
            text = step["sid"]
            ok, sid = call(Sid, text)
            if not ok:
                out.add(f"C12/probe/Sid-raises/{exc_sig(sid)}", f"Sid({text!r}) raised {sid!r}")
                continue
            out.evaluations += 3
            ok1, ex = call(sid.exists)
            ok2, ch = call(sid.children)
            ok3, sb = call(sid.siblings)
            for what, okx, vx in (("exists", ok1, ex), ("children", ok2, ch), ("siblings", ok3, sb)):
                if not okx:
                    out.add(f"C12/sid/{what}/raises/{exc_sig(vx)}", f"Sid({text!r}).{what}() raised {vx!r}")
            if not (ok1 and ok2 and ok3):
                continue
            if not sid:
                out.label("probe:untyped")
                if ex is not False or list(ch) != [] or list(sb) != []:
                    out.add("C12/sid/untyped-not-empty", f"untyped Sid({text!r}): exists {ex!r}, children {ch!r}, siblings {sb!r}")
                continue
            segs = str(sid).split("/")
            try:
                here = strings(world.search(str(sid), "all") or {})
                kids = strings(world.search(str(sid) + "/*", "all") or {})
                sibs = strings(world.search("/".join(segs[:-1] + ["*"]), "all") or {})
            except refsearch.RefSpilException:
                continue
            exp_exists = str(sid) in here
            out.label("probe:" + ("existing" if exp_exists else "missing"))
            if ex is not exp_exists:
                out.add("C12/sid/exists-differs", f"Sid({text!r}).exists() = {ex!r}, reference {exp_exists}; existing {L}")
            is_leaf = m.keys(sid.type)[-1] == m.leaf_key(sid.type)
            if is_leaf:
                out.label("probe:leaf")
                if list(ch) != []:
                    out.add("C12/sid/leaf-has-children", f"leaf Sid({text!r}).children() = {ch!r}")
            else:
                got = sorted({str(x) for x in ch})
                if got != kids or len(got) != len(list(ch)):
                    out.add("C12/sid/children-differ", f"Sid({text!r}).children() = {sorted(str(x) for x in ch)}, reference {kids}; existing {L}")
                if any(x.parent != sid for x in ch if x):
                    out.add("C12/sid/child-parent-is-not-sid", f"Sid({text!r}).children() = {ch!r}")
            got = sorted({str(x) for x in sb})
            if got != sibs or len(got) != len(list(sb)):
                out.add("C12/sid/siblings-differ", f"Sid({text!r}).siblings() = {sorted(str(x) for x in sb)}, reference {sibs}; existing {L}")
            # whatever exists (file-system backed) has an existing parent
            if ex and model.paths[cname].has_path(sid.type) and len(segs) > 1:
                okp, pex = call(lambda: sid.parent.exists())
                if not okp:
                    out.add(f"C12/sid/parent-exists/raises/{exc_sig(pex)}", f"Sid({text!r}).parent.exists() raised {pex!r}")
                elif not pex:
                    sig = "C12/sid/existing-entity-with-missing-parent"
                    psrc = sources(model).get(sid.parent.type)
                    if not model.paths[cname].has_path(sid.parent.type) and getattr(psrc, "kind", "") == "paths":
                        sig = "C12/sid/parent-type-has-no-source"
                    out.add(sig, f"Sid({text!r}) exists but its parent {sid.parent!r} does not")
    out.nontrivial = create_between
    out.key = case
    out.evaluations = max(1, out.evaluations)
    return out


EVALUATORS = {"history": evaluate}


def run(ctx) -> Stats:
    n = int((200 if ctx.quick else 6000) * ctx.options.get("scale", 1.0))
    return drive(ctx, "history", cases(), evaluate, max_examples=n)
