"""
C01 - a string is typed exactly as the configured templates say, else stays untyped.

Generated: strings of 0..12 segments built from a valid Sid of a random type by 0..3 edits
(junk / other-level / empty / search-symbol / alias / comma segments, dropped / duplicated / appended
segments, control characters, uri prefixes with 1..3 colons), plus pure junk.
Oracle: reference typing (vp.confmodel) computed from the raw configuration: first template with
the same number of segments whose every pattern fullmatches its segment; 'T:S' forces T.
"""
from __future__ import annotations

from hypothesis import strategies as st

from vp import confmodel, gens
from vp.pbt import Outcome, Stats, call, drive, exc_sig

PROPERTY = "C01"
LEVEL = "exploration"
SHARDS = {"quick": 16, "thorough": 16}
RULE = ("Hypothesis-generated strings: a valid Sid string of a random configured type (values sampled from the "
        "placeholder patterns, 15% search symbols) edited 0-3 times (segment -> junk/other level/empty/search "
        "symbol/alias/comma list; drop/duplicate/append segments; control characters; uri prefix with existing, "
        "other, unknown or empty type and 1-3 colons, ':' inside a value) plus pure junk; compared with an independent reference typing; "
        "every result passed through Sid() again must denote the same Sid. "
        "non-trivial = anything but an unedited valid natural string; distinct = distinct input strings")
ASSUMPTIONS = [
    "reference model (vp/confmodel.py) implements the C01 statement: segment-wise fullmatch of placeholder patterns in configuration order",
    "'?' is excluded from generated strings (query syntax is C04's domain)",
    "for an empty forced type (':S') and for two or more colons only 'no exception, untyped or self-consistent' is asserted",
    "resolva 0.0.1 as installed in /venv is part of the system under test",
]


def _model():
    return confmodel.load().sid


def snap(sid):
    return {"type": sid.type, "string": str(sid), "fields": list(sid.fields.items()), "bool": bool(sid), "len": len(sid)}


@st.composite
def cases(draw):
    m = _model()
    labels = []
    mode = draw(st.sampled_from(["valid", "edit", "edit", "edit", "junk"]))
    if mode == "junk":
        n = draw(st.integers(0, 12))
        segs = [draw(st.one_of(st.sampled_from(gens.JUNK_SEGMENTS), gens.free_name(True),
                               st.sampled_from(gens.values_of_any_level(m)))) for _ in range(n)]
        s = "/".join(segs)
        labels.append("junk")
    else:
        t, s = draw(gens.valid_string(m, search_p=0.15, wide=True))
        segs = s.split("/")
        nedits = 0 if mode == "valid" else draw(st.integers(1, 3))
        for _ in range(nedits):
            op = draw(st.sampled_from(["junk", "other", "empty", "star", "last", "dstar", "alias", "comma",
                                       "drop", "dup", "append", "ctrl_in", "ctrl_end", "ctrl_start", "case", "colon_in"]))
            i = draw(st.integers(0, max(0, len(segs) - 1)))
            if not segs and op not in ("append",):
                op = "append"
            if op == "junk":
                segs[i] = draw(st.sampled_from(gens.JUNK_SEGMENTS))
            elif op == "other":
                segs[i] = draw(st.sampled_from(gens.values_of_any_level(m)))
            elif op == "empty":
                segs[i] = ""
            elif op == "star":
                segs[i] = "*"
            elif op == "last":
                segs[i] = ">"
            elif op == "dstar":
                segs[i] = "**"
            elif op == "alias":
                al = gens.all_aliases(m)
                segs[i] = draw(st.sampled_from(al)) if al else "*"
            elif op == "comma":
                segs[i] = segs[i] + "," + draw(st.sampled_from(gens.values_of_any_level(m)))
            elif op == "drop":
                del segs[i]
            elif op == "dup":
                segs.insert(i, segs[i])
            elif op == "append":
                if len(segs) < 12:
                    segs.append(draw(st.one_of(st.sampled_from(gens.JUNK_SEGMENTS),
                                               st.sampled_from(gens.values_of_any_level(m)))))
            elif op == "ctrl_in":
                c = draw(st.sampled_from(gens.CONTROL))
                pos = draw(st.integers(0, len(segs[i])))
                segs[i] = segs[i][:pos] + c + segs[i][pos:]
            elif op == "ctrl_end":
                segs[-1] = segs[-1] + draw(st.sampled_from(gens.CONTROL))
            elif op == "ctrl_start":
                segs[0] = draw(st.sampled_from(gens.CONTROL)) + segs[0]
            elif op == "case":
                segs[i] = segs[i].swapcase()
            elif op == "colon_in":
                # a ':' inside a value (only a uri prefix can carry such a string to a type: see 'uri:' below)
                pos = draw(st.integers(0, len(segs[i])))
                segs[i] = segs[i][:pos] + ":" + segs[i][pos:]
            labels.append("edit:" + op)
        s = "/".join(segs)
        if nedits == 0:
            labels.append("valid")
    # uri prefix
    pk = draw(st.sampled_from(["none", "none", "none", "same", "other", "unknown", "empty", "multi"]))
    if pk == "same":
        t0, _ = m.type_first(s)
        s = (t0 or draw(st.sampled_from(m.types))) + ":" + s
    elif pk == "other":
        s = draw(st.sampled_from(m.types)) + ":" + s
    elif pk == "unknown":
        s = draw(st.sampled_from(["bogus", "asset__", "Project", " ", "a b", "*"])) + ":" + s
    elif pk == "empty":
        s = ":" + s
    elif pk == "multi":
        pre = draw(st.sampled_from(["a:b:", "::", ":x:", "project:project:", "x:y:z:"]))
        if pre == "project:project:":
            pre = m.types[-1] + ":" + m.types[-1] + ":"
        s = pre + s
    if pk != "none":
        labels.append("uri:" + pk)
    s = s.replace("?", "")
    if draw(st.integers(0, 19)) == 0:
        # low-frequency class: a '?query' tail (its application is C04's domain; here only: never raises, and an
        # untyped string before the '?' stays untyped and verbatim)
        k = draw(st.sampled_from(["nokey", "a", "note"] + m.keys(m.types[0])[:1]))
        v = draw(st.sampled_from(["x", "12:30", "b:c", "*", "x y", ""]))
        s = s + "?" + k + "=" + v
        labels.append("query-tail")
    return {"s": s, "labels": labels, "warm": draw(st.integers(0, 3)) == 0}


def evaluate(case) -> Outcome:
    from spil import Sid
    m = _model()
    s = case["s"]
    out = Outcome(key=s, sample=s)
    out.labels = list(case.get("labels", []))
    # "any string ... never fails ... first configured template": also right after Sid OBJECTS of the other
    # templates accepting the same string were built and passed through Sid() (objects and strings must not be confused)
    if case.get("warm") and ":" not in s:
        for tt in list(m.types_all(s))[::-1][:3]:
            okw, w = call(lambda: Sid(Sid(tt + ":" + s)))
            if okw and w and w.type != tt:
                out.add("C01/sid-of-sid-loses-forced-type", f"Sid(Sid({tt + ':' + s!r})) has type {w.type!r}")
        out.label("warm-up")
    ok, sid = call(Sid, s)
    if not ok:
        out.add(f"C01/raises/{exc_sig(sid)}", f"Sid({s!r}) raised {sid!r}")
        out.nontrivial = True
        return out
    got = snap(sid)
    # a Sid object passed through Sid() again denotes the same Sid (objects are passed on by every Finder / Getter / Writer)
    ok2, again = call(Sid, sid)
    if not ok2:
        out.add(f"C01/sid-of-sid/raises/{exc_sig(again)}", f"Sid(Sid({s!r})) raised {again!r}")
    elif got["type"] and snap(again) != got:
        out.add("C01/sid-of-sid-differs", f"Sid({s!r}) -> {got}, passed through Sid() again -> {snap(again)}")
    if "?" in s:
        base = s.split("?", 1)[0]
        out.label("weak-oracle:query-tail")
        out.nontrivial = True
        if base and ":" not in base and m.type_first(base)[0] is None:
            exp = {"type": "", "string": s, "fields": [], "bool": False, "len": 0}
            if got != exp:
                out.add("C01/query-tail/untyped-string-not-kept-verbatim", f"Sid({s!r}): got {got}, expected {exp}")
        return out
    ncolon = s.count(":")
    weak = False
    if ncolon == 0:
        et, ef = m.type_first(s)
        estr = s
    elif ncolon == 1:
        T, S = s.split(":")
        estr = S
        if T == "":
            weak = True
            et = ef = None
        else:
            et, ef = m.type_forced(S, T)
    else:
        weak = True
        et = ef = estr = None

    natural_valid = case.get("labels") == ["valid"]
    out.nontrivial = not natural_valid
    out.label("typed" if got["type"] else "untyped", f"segments:{min(s.count('/') + 1, 13) if s else 0}")

    if weak:
        out.label("weak-oracle")
        if got["type"]:
            # self-consistent: its type's template accepts its string and renders its fields back to it
            t = got["type"]
            f = dict(got["fields"])
            if t not in m.parsed or m.type_forced(got["string"], t)[1] is None or dict(m.type_forced(got["string"], t)[1]) != f \
                    or not got["bool"] or got["len"] != len(f):
                out.add("C01/weak/inconsistent-typed", f"Sid({s!r}) -> {got}")
        else:
            if got["fields"] or got["bool"] or got["len"] != 0:
                out.add("C01/weak/inconsistent-untyped", f"Sid({s!r}) -> {got}")
        return out

    if et:
        exp = {"type": et, "string": estr, "fields": list(ef.items()), "bool": True, "len": len(ef)}
    else:
        exp = {"type": "", "string": estr, "fields": [], "bool": False, "len": 0}
    if got != exp:
        sig = "C01/mismatch"
        if got["type"] and not exp["type"]:
            sig = "C01/typed-but-should-be-untyped"
            # narrow class: '$' of the underlying regex matches before one trailing newline
            if estr.endswith("\n"):
                if ncolon == 0:
                    t2, f2 = m.type_first(estr[:-1])
                else:
                    t2, f2 = m.type_forced(estr[:-1], s.split(":")[0])
                if t2 == got["type"] and f2 is not None and list(f2.items()) == got["fields"] and got["string"] == estr:
                    sig = "C01/trailing-newline-typed"
        elif exp["type"] and not got["type"]:
            sig = "C01/untyped-but-should-be-typed"
        elif got["type"] != exp["type"]:
            sig = "C01/wrong-type"
        elif got["fields"] != exp["fields"]:
            sig = "C01/wrong-fields"
        elif got["string"] != exp["string"]:
            sig = "C01/string-not-verbatim"
        out.add(sig, f"Sid({s!r}): got {got} expected {exp}")
    return out


EVALUATORS = {"typing": evaluate}


def run(ctx) -> Stats:
    n = int((4000 if ctx.quick else 100000) * ctx.options.get("scale", 1.0))
    return drive(ctx, "typing", cases(), evaluate, max_examples=n)
