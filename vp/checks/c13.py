"""
C13 - answers never depend on what was asked before (caches are invisible).

Differential against a fresh interpreter: vp/zygote.py imports spil once per PYTHONHASHSEED and forks a child per
evaluation; a call's *truth* is its canonical result in a fresh child (after only the data changes that precede it).
"""
from __future__ import annotations

import atexit
import json
import os
import random
import subprocess
import sys
from pathlib import Path

from hypothesis import strategies as st

from vp import confmodel
from vp.pbt import Outcome, Stats, drive, enumerate_cases

PROPERTY = "C13"
LEVEL = "exploration"
SHARDS = {"quick": 16, "thorough": 16}
RULE = ("call alphabet (about 500 calls, built deterministically from the configuration and VERIF_SEED) covering every cached entry point and "
        "every flag / configuration value: Sid(str / sid= / fields= / query= / path= with each config, default and a bogus one), sid.path(config) "
        "positional / keyword / default, unfold_search with its four flag values positional / keyword / mixed / default / only-the-set-flag-by-keyword, match, find on a fixed "
        "(non-alphabetical) list, both trees and FindInAll (fully and partially consumed generators kept alive; fresh and long-lived Finder instances; "
        "list results compared in order; find_one), paths of search Sids, exists, failing calls, entity creation. "
        "Each shard owns one PYTHONHASHSEED (8 seeds; shards 8-15 run with cache capacity 3) and checks: all ordered pairs inside a family of related calls (or-search / its alternatives / alias / members / '**' / explicit levels, through every entry point), all ordered pairs of a 22-call (quick) or 150+-call (thorough) "
        "sub-alphabet, Hypothesis-generated sequences of up to 50 calls (with creates), a flood of 5000 distinct Sids followed by probes, truth "
        "tables equal across hash seeds, call-style equivalence of truths. Oracle: every result equals the result of the same call in a freshly "
        "forked post-import process (on the same data). non-trivial = a later call shares its entry point with an earlier one but differs in an "
        "argument, or the cache capacity is reduced; distinct = (hash seed, capacity, call sequence)")
ASSUMPTIONS = [
    "results produced in set order (unfold_search ties, find order) are compared as sorted lists; partially consumed generators report only how many items were taken",
    "'fresh process' = a child forked from a process that has only imported spil and materialised the fixed data set (vp/zygote.py)",
    "paths are compared relative to the configured roots (each zygote has its own scratch root)",
]

_zygotes = {}
_truth = {}


class Zygote:
    def __init__(self, hashseed: int, shared_conf=None):
        env = dict(os.environ)
        env["PYTHONHASHSEED"] = str(hashseed)
        if shared_conf:
            env["SPIL_VERIF_SHARED_CONF"] = str(shared_conf)
        verif = str(Path(__file__).resolve().parent.parent.parent)
        env["PYTHONPATH"] = verif + (os.pathsep + env["PYTHONPATH"] if env.get("PYTHONPATH") else "")
        self.p = subprocess.Popen([sys.executable, "-m", "vp.zygote"], stdin=subprocess.PIPE, stdout=subprocess.PIPE,
                                  stderr=subprocess.DEVNULL, env=env, cwd=verif, text=True, bufsize=1)
        line = self.p.stdout.readline()
        while line and not line.startswith("{"):
            line = self.p.stdout.readline()
        if not line or not json.loads(line).get("ready"):
            raise RuntimeError(f"zygote (hash seed {hashseed}) did not start: {line!r}")

    def ask(self, calls, max_size=None):
        self.p.stdin.write(json.dumps({"calls": calls, "max_size": max_size}) + "\n")
        self.p.stdin.flush()
        line = self.p.stdout.readline()
        while line and not line.startswith("{"):
            line = self.p.stdout.readline()
        if not line:
            raise RuntimeError("zygote died")
        r = json.loads(line)
        if "error" in r:
            raise RuntimeError("zygote child failed: " + r["error"])
        return r["results"]

    def close(self):
        try:
            self.p.stdin.write(json.dumps({"quit": True}) + "\n")
            self.p.stdin.flush()
            self.p.wait(timeout=10)
        except Exception:
            self.p.kill()


def zygote(h: int) -> Zygote:
    if h not in _zygotes:
        _zygotes[h] = Zygote(h)
    return _zygotes[h]


@atexit.register
def _close_all():
    for z in _zygotes.values():
        z.close()


def truth(h: int, creates, call):
    key = (h, json.dumps(creates, sort_keys=True), json.dumps(call, sort_keys=True))
    if key not in _truth:
        res = zygote(h).ask(list(creates) + [call])
        _truth[key] = res[-1]
    return _truth[key]


# ------------------------------------------------------------------------------------------------
# fixed data and alphabet (deterministic functions of the configuration and the seed)
# ------------------------------------------------------------------------------------------------

def _first_values(m, t, variant=0):
    f = {}
    aliases = set(m.extension_alias)
    for k in m.keys(t):
        spec = m.specs[(t, k)]
        if spec.free:
            f[k] = ["x", "y", "x_y"][variant % 3]
        elif spec.literals:
            lits = [l for l in spec.literals if l not in aliases] or spec.literals
            f[k] = lits[variant % len(lits)] if k == m.keys(t)[-1] else lits[0]
        elif spec.digit_forms:
            p, n = spec.digit_forms[0]
            f[k] = p + str(1 + variant % 2).zfill(n)
        else:
            f[k] = "x"
    return f


def fixed_universe(model):
    m = model.sid
    pm = model.paths[model.default_config]
    ents = []
    for t in m.types:
        if pm.has_path(t) and m.is_leaf_type(t):
            for v in range(3):
                ents.append((t, _first_values(m, t, v)))
    return ents


def new_entities(model):
    m = model.sid
    pm = model.paths[model.default_config]
    out = []
    for t in m.types:
        if pm.has_path(t) and m.is_leaf_type(t):
            f = _first_values(m, t, 0)
            for k in m.keys(t):
                if m.specs[(t, k)].free:
                    f[k] = "znew"
            out.append([t, f])
    return out[:3]


def alphabet(model, seed: int):
    m = model.sid
    rnd = random.Random(seed * 7919 + 13)
    fixed = fixed_universe(model)
    configs = list(model.paths)
    calls = []
    sids = []
    for t, f in fixed:
        s = m.render(t, f)
        sids.append((t, f, s))
    picked = rnd.sample(sids, min(8, len(sids)))
    # prefixes of existing entities, searches, junk
    strings = []
    for t, f, s in picked:
        segs = s.split("/")
        strings.append(s)
        strings.append("/".join(segs[: rnd.randint(1, len(segs))]))
        st_ = list(segs)
        for _ in range(rnd.randint(1, 3)):
            st_[rnd.randrange(len(st_))] = rnd.choice(["*", "*", ">"])
        strings.append("/".join(st_))
    strings += ["", "bla", "bla/bla", segs[0] + "/**", segs[0] + "/*/**", "*", "*/*", "*/*/*", "bla/**", segs[0] + "/**/" + segs[-1],
                segs[0] + "/**/a/**", s + "?" + m.keys(t)[-1] + "=*", s + "?nokey=x", "bla?" + m.keys(t)[0] + "=" + segs[0]]
    aliases = sorted(m.extension_alias)
    if aliases:
        strings.append("/".join(segs[:-1] + [aliases[0]]))
    strings = list(dict.fromkeys(strings))
    for s in strings:
        calls.append({"k": "sid", "s": s})
    for s in strings[:4]:
        calls.append({"k": "sid_kw", "s": s})
    for s in strings[:10]:
        for tt in list(m.types_all(s.split("?")[0]))[:2]:
            calls.append({"k": "sid_of_sid", "s": tt + ":" + s})
    for t, f, s in picked[:4]:
        calls.append({"k": "sid", "s": t + ":" + s})
        items = list(f.items())
        calls.append({"k": "sid_fields", "f": items})
        calls.append({"k": "sid_fields", "f": list(reversed(items))})
        calls.append({"k": "sid_query", "q": "&".join(f"{k}={v}" for k, v in items)})
    calls.append({"k": "sid_fields", "f": [["bogus", "x"]]})
    # paths
    for t, f, s in picked[:5]:
        for c in configs:
            rel = model.paths[c].render(t, f)[len(model.paths[c].root()):]
            for cfg in [None] + configs + ["bogus"]:
                calls.append({"k": "sid_path", "root": c, "rel": rel, "config": cfg})
            calls.append({"k": "sid_path", "root": c, "rel": rel + "x", "config": c})
        uri = t + ":" + s
        for cfg in configs:
            for style in ("pos", "kw"):
                calls.append({"k": "path", "uri": uri, "config": cfg, "style": style})
        calls.append({"k": "path", "uri": uri, "config": None, "style": "pos"})
        calls.append({"k": "path", "uri": uri, "config": None, "style": "kw"})
        calls.append({"k": "path", "uri": uri, "config": None, "style": "default"})
    calls.append({"k": "path", "uri": "bla/bla", "config": None, "style": "default"})
    # paths of SEARCH Sids (what a Finder globs with): several levels open, so that more than one path template may match
    for t, f, s in picked[:4]:
        keys = m.keys(t)
        g = dict(f)
        for k in keys[1:-1]:
            if rnd.random() < 0.5 and m.accepts_value(t, k, "*") and not m.specs[(t, k)].free:
                g[k] = "*"
        if g == f:
            continue
        uri = t + ":" + m.render(t, g)
        for c in configs:
            pth = model.paths[c].render(t, g) if model.paths[c].has_path(t) else None
            if pth:
                rel = pth[len(model.paths[c].root()):]
                for cfg in (None, c):
                    calls.append({"k": "sid_path", "root": c, "rel": rel, "config": cfg})
                calls.append({"k": "path", "uri": uri, "config": c, "style": "pos"})
        calls.append({"k": "path", "uri": uri, "config": None, "style": "default"})
    # unfold
    searches = [x for x in strings if x][:14]
    for s in searches:
        for u in (False, True):
            for e in (False, True):
                for style in ("pos", "kw", "mixed") + (("default",) if not u and not e else ()) + (("sparse",) if u != e else ()):
                    calls.append({"k": "unfold", "s": s, "u": u, "e": e, "style": style})
    # match
    for t, f, s in picked[:4]:
        for q in searches[:5]:
            calls.append({"k": "match", "uri": t + ":" + s, "s": q})
    # find
    finders = ["list", "all"] + ["paths:" + c for c in configs]
    for q in searches[:10]:
        for fd in finders:
            calls.append({"k": "find", "finder": fd, "s": q, "consume": None})
        calls.append({"k": "find", "finder": rnd.choice(finders), "s": q, "consume": 1})
        # FindInList reports in list order: the order, and the first hit, are part of the answer; 'list@' is one
        # long-lived instance per process (a '>' search, a partially consumed generator ... must leave it as it was)
        calls.append({"k": "find", "finder": "list", "s": q, "consume": None, "ordered": True})
        calls.append({"k": "find", "finder": "list@", "s": q, "consume": None, "ordered": True})
        calls.append({"k": "find", "finder": "list@", "s": q, "consume": 1})
        calls.append({"k": "find_one", "finder": "list@", "s": q})
        calls.append({"k": "find_one", "finder": "all@", "s": q})
    for t, f, s in picked[:4]:
        calls.append({"k": "exists", "uri": t + ":" + s})
    for e in new_entities(model):
        calls.append({"k": "exists", "uri": e[0] + ":" + m.render(e[0], e[1])})
        calls.append({"k": "find", "finder": "all", "s": m.render(e[0], e[1]), "consume": None})
        calls.append({"k": "find", "finder": "paths:" + model.default_config, "s": "/".join(m.render(e[0], e[1]).split("/")[:-1] + ["*"]), "consume": None})
    return calls


def families(model, seed: int):
    """
    Families of RELATED calls: searches that share sub-results inside the library (an or-search and each of its
    alternatives alone, an alias and its members, a '**' search and its explicit expansions, a Sid and its prefixes),
    each asked through every entry point. All ordered pairs inside a family are checked.
    """
    m = model.sid
    rnd = random.Random(seed * 4391 + 7)
    fixed = [(t, f, m.render(t, f)) for t, f in fixed_universe(model)]
    picked = rnd.sample(fixed, min(8, len(fixed)))
    fams = []
    aliases = sorted(m.extension_alias)
    for t, f, s in picked:
        segs = s.split("/")
        n = len(segs)
        i = rnd.randrange(n)
        others = sorted({x[2].split("/")[i] for x in fixed if len(x[2].split("/")) > i and x[2].split("/")[i] != segs[i]}) or ["zz"]
        other = rnd.choice(others + ["zz"])
        with_other = "/".join(segs[:i] + [other] + segs[i + 1:])
        or1 = "/".join(segs[:i] + [segs[i] + "," + other] + segs[i + 1:])
        or2 = "/".join(segs[:i] + [other + "," + segs[i]] + segs[i + 1:])
        star = "/".join(segs[:i] + ["*"] + segs[i + 1:])
        k = rnd.randint(1, n - 1)
        dstar = "/".join(segs[:k] + ["**"])
        explicit = "/".join(segs[:k] + ["*"] * (n - k))
        strings = [s, with_other, or1, or2, star, dstar, explicit, "/".join(segs[:max(1, n - 1)])]
        al = [a for a in aliases if m.accepts(t, segs[:-1] + [a])]
        if al:
            a = rnd.choice(al)
            strings.append("/".join(segs[:-1] + [a]))
            for mem in m.extension_alias[a][:2]:
                strings.append("/".join(segs[:-1] + [mem]))
            strings.append("/".join(segs[:-1] + ["*"]) + "?" + m.keys(t)[-1] + "=" + a)
        strings = list(dict.fromkeys(strings))
        calls = []
        for x in strings:
            calls.append({"k": "unfold", "s": x, "u": False, "e": False, "style": "pos"})
            calls.append({"k": "find", "finder": "list", "s": x, "consume": None})
            calls.append({"k": "match", "uri": t + ":" + s, "s": x})
        for x in strings[:6]:
            # the same string as a plain string, and as Sid OBJECTS forced to every type accepting it
            for tt in list(m.types_all(x.split("?")[0]))[:3]:
                calls.append({"k": "sid_of_sid", "s": tt + ":" + x})
                calls.append({"k": "sid", "s": tt + ":" + x})
        # the same query text on a search and on plain Sids (queries are parsed, expanded and re-serialised by searches)
        qtexts = [x.split("?", 1)[1] for x in strings if "?" in x]
        for qt in qtexts[:2]:
            calls.append({"k": "sid", "s": s + "?" + qt})
            calls.append({"k": "sid", "s": "/".join(segs[:-1]) + "?" + qt})
            calls.append({"k": "unfold", "s": "/".join(["*"] * n) + "?" + qt, "u": False, "e": False, "style": "pos"})
        for x in strings[:4]:
            calls.append({"k": "sid", "s": x})
            calls.append({"k": "unfold", "s": x, "u": False, "e": True, "style": "kw"})
            calls.append({"k": "find", "finder": "all", "s": x, "consume": None})
        calls.append({"k": "find", "finder": "paths:" + model.default_config, "s": or1, "consume": 1})
        fams.append(calls)
    # one family per long-lived Finder instance: every kind of search ('>' sorted, star, plain, partially consumed, find_one)
    # asked of the SAME instance, in both orders; order of the results included for the list Finder
    for t, f, s in picked[:3]:
        segs = s.split("/")
        n = len(segs)
        i = rnd.randrange(1, n)
        gt = "/".join(segs[:i] + [">"] + segs[i + 1:])
        gt_star = "/".join(segs[:max(1, i - 1)] + ["*"] * (1 if i > 1 else 0) + [">"] + ["*"] * (n - i - 1))
        star = "/".join(segs[:i] + ["*"] * (n - i))
        wide = "/".join(segs[:1] + ["*"] * (n - 1))
        calls = []
        for fd in ("list@", "all@", "paths:" + model.default_config + "@"):
            for x in (gt, gt_star, star, wide, s):
                calls.append({"k": "find", "finder": fd, "s": x, "consume": None, "ordered": fd == "list@"})
                calls.append({"k": "find_one", "finder": fd, "s": x})
            calls.append({"k": "find", "finder": fd, "s": wide, "consume": 1})
        fams.append(calls)
    # one family of path calls around SEARCH Sids (several levels open: more than one path template may match the path, the
    # resolver's fallback runs): path -> Sid and Sid -> path under every spelling of the configuration, in both orders
    configs = list(model.paths)
    calls = []
    deep = sorted(fixed, key=lambda e: -len(m.keys(e[0])))
    chosen = []
    for e in deep:                      # one deep entity per basetype
        if m.basetype(e[0]) not in [m.basetype(x[0]) for x in chosen]:
            chosen.append(e)
    for t, f, s in chosen[:2]:
        keys = m.keys(t)
        for variant in range(2):
            g = dict(f)
            for j, k in enumerate(keys[1:]):
                if (variant == 0 or j in (0, 1, 3)) and m.accepts_value(t, k, "*") and not m.specs[(t, k)].free:
                    g[k] = "*"
            if g == f:
                continue
            uri = t + ":" + m.render(t, g)
            for c in configs:
                pth = model.paths[c].render(t, g) if model.paths[c].has_path(t) else None
                if pth:
                    rel = pth[len(model.paths[c].root()):]
                    for cfg in (None, c):
                        calls.append({"k": "sid_path", "root": c, "rel": rel, "config": cfg})
                    for style in ("pos", "kw"):
                        calls.append({"k": "path", "uri": uri, "config": c, "style": style})
            calls.append({"k": "path", "uri": uri, "config": None, "style": "default"})
    if calls:
        fams.append(calls[:33])
    # one family of call SPELLINGS: the same unfold request with one flag set, written positionally, by keyword, and with only the
    # set flag given by keyword - on the same strings, in both orders (cache keys must tell the flags apart)
    calls = []
    for t, f, s in picked[:6]:
        segs = s.split("/")
        x = "/".join(segs[:-1] + ["*"])
        for u, e in ((True, False), (False, True)):
            calls.append({"k": "unfold", "s": x, "u": u, "e": e, "style": "sparse"})
            calls.append({"k": "unfold", "s": x, "u": u, "e": e, "style": "pos"})
        calls.append({"k": "unfold", "s": x, "u": False, "e": False, "style": "default"})
    fams.append(calls[:33])
    return fams


def creates(model):
    return [{"k": "create", "entity": e, "config": model.default_config} for e in new_entities(model)]


def request_key(c):
    """Calls that denote the same request and differ only in argument passing style."""
    if c["k"] == "path":
        cfg = c["config"]
        return ("path", c["uri"], cfg)
    if c["k"] == "unfold":
        return ("unfold", c["s"], c["u"], c["e"])
    if c["k"] in ("sid", "sid_kw", "sid_of_sid"):
        return ("sid", c["s"])
    return None


# ------------------------------------------------------------------------------------------------
# evaluation
# ------------------------------------------------------------------------------------------------

def evaluate(case) -> Outcome:
    h = int(case["hashseed"])
    ms = case.get("max_size")
    calls = case["calls"]
    out = Outcome(key=case, sample={"hashseed": h, "max_size": ms, "calls": calls[:6], "n": len(calls)})
    out.evaluations = len(calls)
    actual = zygote(h).ask(calls, ms)
    done = []
    seen_kinds = {}
    for i, c in enumerate(calls):
        if c["k"] == "create":
            done.append(c)
            continue
        if c["k"] == "flood":
            continue
        t = truth(h, done, c)
        if actual[i] != t:
            prev = [x["k"] for x in calls[:i]]
            culprit = prev[-1] if prev else "none"
            sig = f"C13/history-dependent/{c['k']}"
            if len(calls) == 2:
                sig = f"C13/pair/{culprit}->{c['k']}"
            out.add(sig, f"hash seed {h}, cache capacity {ms or 'default'}: call #{i} {c} returned {json.dumps(actual[i])[:400]} after {len(prev)} other calls; "
                         f"fresh process: {json.dumps(t)[:400]}")
        if h != 0:
            t0 = truth(0, done, c)
            if t0 != t:
                out.add(f"C13/hash-seed-dependent/{c['k']}", f"call {c}: fresh-process result under PYTHONHASHSEED={h} {json.dumps(t)[:300]} vs under 0 {json.dumps(t0)[:300]}")
        k = c["k"]
        if k in seen_kinds and any(json.dumps(p, sort_keys=True) != json.dumps(c, sort_keys=True) for p in seen_kinds[k]):
            out.nontrivial = True
        seen_kinds.setdefault(k, []).append(c)
    if ms:
        out.nontrivial = True
        out.label("reduced-capacity")
    if done:
        out.label("with-create")
    out.label(f"len:{min(len(calls), 50) // 10 * 10}")
    return out


def evaluate_styles(case) -> Outcome:
    """Call-style equivalence: same request, different argument passing -> same fresh-process answer."""
    h = int(case["hashseed"])
    calls = case["calls"]
    out = Outcome(key=case, sample=case)
    out.evaluations = len(calls)
    ts = [truth(h, [], c) for c in calls]
    out.nontrivial = len(calls) > 1
    for c, t in zip(calls[1:], ts[1:]):
        if t != ts[0]:
            out.add(f"C13/call-style/{c['k']}", f"hash seed {h}: {calls[0]} -> {json.dumps(ts[0])[:300]} but {c} -> {json.dumps(t)[:300]} (fresh process each)")
    return out


EVALUATORS = {"history": evaluate, "styles": evaluate_styles}


def run(ctx) -> Stats:
    model = confmodel.load()
    scale = ctx.options.get("scale", 1.0)
    h = ctx.shard % 8
    ms = 3 if (ctx.shard // 8) % 2 == 1 else None
    alpha = alphabet(model, ctx.seed)
    cr = creates(model)
    stats = Stats()
    stats.labels[f"alphabet:{len(alpha)}"] = 1

    # (d) + (f): truth table (also under hash seed 0) and call-style equivalence
    groups = {}
    for c in alpha:
        rk = request_key(c)
        if rk is not None:
            groups.setdefault(json.dumps(rk), []).append(c)
    enumerate_cases(ctx, "styles", ({"hashseed": h, "calls": g} for g in groups.values() if len(g) > 1), evaluate_styles, stats)
    enumerate_cases(ctx, "history", ({"hashseed": h, "max_size": ms, "calls": [c]} for c in alpha), evaluate, stats)

    # (a0) all ordered pairs inside one family of related calls (families are spread over the shards)
    fams = families(model, ctx.seed)
    todo = [fams[(ctx.shard + j * ctx.nshards) % len(fams)] for j in range(1 if ctx.quick else len(fams))]
    if scale < 0.5:
        todo = [fam[:12] for fam in todo]
    elif ctx.quick:
        # a different 33-call subset of the family per shard and seed (the whole family is covered over the shards)
        frnd = random.Random(ctx.seed * 911 + ctx.shard)
        todo = [frnd.sample(fam, min(33, len(fam))) for fam in todo]
    for fam in todo:
        enumerate_cases(ctx, "history", ({"hashseed": h, "max_size": ms, "calls": [a, b]} for a in fam for b in fam), evaluate, stats)
    stats.labels["family-pairs"] = sum(len(fam) ** 2 for fam in todo)

    # (a) ordered pairs over a sub-alphabet (different per shard)
    rnd = random.Random(ctx.seed * 104729 + ctx.shard)
    nsub = max(4, int((22 if ctx.quick else 300) * min(1.0, scale) ** 0.5))
    if not ctx.quick:
        nsub = min(len(alpha), max(nsub, 150))
    sub = rnd.sample(alpha, min(nsub, len(alpha))) + cr[:1]
    pairs = ({"hashseed": h, "max_size": ms, "calls": [a, b]} for a in sub for b in sub if b["k"] != "create")
    enumerate_cases(ctx, "history", pairs, evaluate, stats)

    # (c) flood then probes
    probes = rnd.sample(alpha, min(40, len(alpha)))
    enumerate_cases(ctx, "history", [{"hashseed": h, "max_size": ms, "calls": [{"k": "flood", "n": 5000, "prefix": model.sid.projects[0] + "/zz" if model.sid.projects else "zz"}] + probes}],
                    evaluate, stats)

    # (b) random sequences with creates (the alphabet is extended by this shard's family so that related calls meet)
    alpha = alpha + [c for fam in todo[:1] for c in fam]
    idx = st.integers(0, len(alpha) - 1)
    step = st.one_of(idx, idx, idx, idx, idx, idx, idx, st.integers(-len(cr), -1))
    seqs = st.lists(step, min_size=2, max_size=50).map(
        lambda ix: {"hashseed": h, "max_size": ms, "calls": [alpha[i] if i >= 0 else cr[-i - 1] for i in ix]})
    n = int((30 if ctx.quick else 1500) * scale)
    drive(ctx, "history", seqs, evaluate, max_examples=max(5, n), stats=stats)
    return stats
