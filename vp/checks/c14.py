"""
C14 - Sids are immutable values: equal means same uri, and nothing can alter one.
"""
from __future__ import annotations

import itertools

from hypothesis import strategies as st

from vp import confmodel, gens, tree
from vp.pbt import Outcome, Stats, call, drive, exc_sig

PROPERTY = "C14"
LEVEL = "exploration"
SHARDS = {"quick": 16, "thorough": 16}
RULE = ("a bundle of 2-5 Sids (valid / edited / junk strings, 1 in 8 with an empty value, the same string forced to sibling types, equal Sids built through string, uri, "
        "fields, query and copy) and a sequence of 3-25 public operations on bundle members and on Sids derived from them (parent, get_as, get_with "
        "by keyword / key-value / query, copy, '/', get, fields, as_query, uri, path, match, is_leaf, is_search, children, siblings, exists, "
        "keytype, basetype, len, repr, comparison, hashing, Sid(sid), copy.copy / copy.deepcopy / pickle round trip, Sid(fields=dict) with later mutation of the passed dict); every returned "
        "dict / list / derived Sid's fields is then mutated (clear, insert, append, item assignment). After every step every bundle Sid must still "
        "show its creation-time (str, type, fields, uri, hash) and equal a newly built Sid(uri); at the end the equality / hash / set / dict / "
        "sort laws are checked on all pairs. non-trivial = a returned container of a Sid whose string is shared by >= 2 bundle members was "
        "mutated; distinct = distinct (bundle, operation sequence)")
ASSUMPTIONS = [
    "only public attributes and methods are used (no access to _fields / _string / _type)",
    "'?' and ':' inside plain strings are excluded from the bundle generator (uri / query syntax), except where a uri or query is built on purpose",
]


def _m():
    return confmodel.load()


OPS = ["parent", "get_as", "get_with_kw", "get_with_kv", "get_with_query", "copy", "div", "get", "fields", "as_query", "uri", "path",
       "match", "is_leaf", "is_search", "children", "siblings", "exists", "keytype", "len", "repr", "eq", "hash", "sid_of_sid", "copy_copy", "deepcopy", "pickle",
       "sid_from_fields", "fields", "fields", "get_with_none"]


@st.composite
def cases(draw):
    model = _m()
    m = model.sid
    bundle = []
    t, f = draw(gens.typed_fields(m, search_p=0.15, wide=True))
    if draw(st.integers(0, 7)) == 0:
        # a key present with an empty value (the free patterns accept it)
        cands = [k for k in m.keys(t) if m.accepts_value(t, k, "")]
        if cands:
            f = dict(f)
            f[draw(st.sampled_from(cands))] = ""
    s = m.render(t, f)
    bundle.append({"how": "string", "text": s})
    n = draw(st.integers(1, 4))
    for _ in range(n):
        how = draw(st.sampled_from(["same-forced", "same-uri", "same-fields", "same-query", "other", "junk", "variant", "copy",
                                    "unapplied-query"]))
        if how == "unapplied-query":
            # the same Sid carrying a query that cannot be applied: type and fields of the base, another string and uri
            bundle.append({"how": "string", "text": s + "?" + draw(st.sampled_from(["nokey=x", "nokey=y", m.keys(t)[0] + "=zz9"]))})
            continue
        if how == "same-forced":
            sibs = [x for x in m.types if set(m.keys(x)) == set(m.keys(t))]
            bundle.append({"how": "string", "text": draw(st.sampled_from(sibs)) + ":" + s})
        elif how == "same-uri":
            bundle.append({"how": "uri-of", "text": s})
        elif how == "same-fields":
            bundle.append({"how": "fields-of", "text": s})
        elif how == "same-query":
            bundle.append({"how": "query-of", "text": s})
        elif how == "copy":
            bundle.append({"how": "copy-of", "text": s})
        elif how == "variant":
            k = draw(st.sampled_from(m.keys(t)))
            g = dict(f)
            g[k] = draw(gens.value(m.specs[(t, k)], 0.2, True))
            bundle.append({"how": "string", "text": m.render(t, g)})
        elif how == "other":
            t2, f2 = draw(gens.typed_fields(m, search_p=0.1, wide=True))
            bundle.append({"how": "string", "text": m.render(t2, f2)})
        else:
            segs = s.split("/")
            segs[draw(st.integers(0, len(segs) - 1))] = draw(st.sampled_from(gens.JUNK_SEGMENTS))
            bundle.append({"how": "string", "text": "/".join(segs).replace("?", "").replace(":", "")})
    allkeys = sorted({k for x in m.types for k in m.keys(x)})
    ops = []
    for _ in range(draw(st.integers(3, 25))):
        op = draw(st.sampled_from(OPS))
        target = draw(st.integers(0, len(bundle) - 1))
        derived = draw(st.integers(0, 3)) == 0   # apply to the most recently derived Sid instead
        arg = {}
        if op in ("get_as", "get", "get_with_kw", "get_with_kv", "get_with_none"):
            arg["key"] = draw(st.sampled_from(allkeys))
        if op in ("get_with_kw", "get_with_kv", "div"):
            arg["value"] = draw(st.one_of(st.sampled_from(gens.values_of_any_level(m) + ["*", ">", "x", ""]), gens.free_name(True)))
        if op == "get_with_query":
            arg["query"] = draw(st.sampled_from(allkeys)) + "=" + draw(st.sampled_from(["*", "x", "v001", "~w", "p"]))
        if op == "match":
            arg["search"] = draw(st.sampled_from(["*", "*/*", "*/*/*/*", s, "/".join(s.split("/")[:-1] + ["*"]), "bla"]))
        if op == "path":
            arg["config"] = draw(st.sampled_from([None] + list(model.paths)))
        if op == "eq":
            arg["other"] = draw(st.integers(0, len(bundle) - 1))
        ops.append({"op": op, "target": target, "derived": derived, "arg": arg})
    return {"bundle": bundle, "ops": ops}


def build(entry):
    from spil import Sid
    how, text = entry["how"], entry["text"]
    base = Sid(text)
    if how == "string":
        return base
    if how == "uri-of":
        return Sid(base.uri)
    if how == "fields-of":
        return Sid(fields=dict(reversed(list(base.fields.items())))) if base else Sid(text)
    if how == "query-of":
        return Sid(query=base.as_query()) if base else Sid(text)
    if how == "copy-of":
        return base.copy()
    return base


def snap(sid):
    return {"str": str(sid), "type": sid.type, "fields": list(sid.fields.items()), "uri": sid.uri, "hash": hash(sid), "bool": bool(sid), "len": len(sid)}


def try_mutate(obj, out, labels):
    """Mutation attempts on whatever container came back."""
    from spil import Sid
    try:
        if isinstance(obj, dict):
            obj.clear()
            obj["x"] = 1
            labels.add("mutated:dict")
        elif isinstance(obj, list):
            for x in obj:
                if isinstance(x, Sid):
                    d = x.fields
                    d.clear()
                    d["x"] = 1
            obj.append("junk")
            obj.clear()
            labels.add("mutated:list")
        elif isinstance(obj, Sid):
            d = obj.fields
            d.clear()
            d["x"] = 1
            d2 = obj.fields
            for k in list(d2):
                d2[k] = "mutated"
            labels.add("mutated:derived-sid-fields")
    except Exception:  # a container that refuses mutation is fine
        labels.add("mutation-refused")


def evaluate(case) -> Outcome:
    from spil import Sid
    model = _m()
    out = Outcome(key=case, sample={"bundle": case["bundle"], "ops": [o["op"] for o in case["ops"]]})
    tree.reset(model)
    sids = []
    for e in case["bundle"]:
        ok, sid = call(build, e)
        if not ok:
            out.add(f"C14/build/raises/{exc_sig(sid)}", f"building {e} raised {sid!r}")
            return out
        sids.append(sid)
    snaps = [snap(s) for s in sids]
    # what a newly built Sid(uri) looks like at creation time (for a typed Sid: the Sid itself, see C02;
    # an untyped Sid left by a failed forced type has a bare-string uri that may type naturally)
    fresh0 = []
    for s_ in sids:
        ok, fr = call(Sid, s_.uri)
        fresh0.append(snap(fr) if ok else None)
    strings = [str(s) for s in sids]
    shared = {s for s in strings if strings.count(s) >= 2}
    labels = set()
    derived = None
    touched_shared = False

    empty0 = snap(Sid())

    def verify(where):
        if snap(Sid()) != empty0 or snap(Sid("")) != empty0:
            out.add("C14/empty-sid-changed", f"after {where}: Sid() is {snap(Sid())}, it was {empty0}")
            return False
        for i, (sid, sn) in enumerate(zip(sids, snaps)):
            now = snap(sid)
            if now != sn:
                diff = [k for k in sn if sn[k] != now[k]]
                out.add(f"C14/mutated/{'+'.join(diff)}", f"after {where}: bundle Sid #{i} ({sn['uri']!r}) changed: {sn} -> {now}")
                return False
            ok, fresh = call(Sid, sn["uri"])
            if ok and fresh0[i] is not None:
                fs = snap(fresh)
                if fs != fresh0[i]:
                    diff = [k for k in fs if fresh0[i][k] != fs[k]]
                    out.add(f"C14/new-sid-differs/{'+'.join(diff)}", f"after {where}: a newly built Sid({sn['uri']!r}) is {fs}, at creation time it was {fresh0[i]}")
                    return False
                if sn["type"] and fs != sn:
                    out.add("C14/typed-sid-not-rebuilt-from-uri", f"Sid({sn['uri']!r}) is {fs}, the bundle Sid is {sn}")
                    return False
        return True

    out.evaluations = len(case["ops"])
    for n, o in enumerate(case["ops"]):
        op, arg = o["op"], o["arg"]
        target = derived if (o["derived"] and isinstance(derived, Sid)) else sids[o["target"] % len(sids)]
        res = None
        passed_dict = None
        try:
            if op == "parent":
                res = target.parent
            elif op == "get_as":
                res = target.get_as(arg["key"])
            elif op == "get_with_kw":
                res = target.get_with(**{arg["key"]: arg["value"]})
            elif op == "get_with_kv":
                res = target.get_with(key=arg["key"], value=arg["value"])
            elif op == "get_with_none":
                res = target.get_with(**{arg["key"]: None})
            elif op == "get_with_query":
                res = target.get_with(query=arg["query"])
            elif op == "copy":
                res = target.copy()
            elif op in ("copy_copy", "deepcopy", "pickle"):
                import copy as _copy, pickle as _pickle
                res = _copy.copy(target) if op == "copy_copy" else _copy.deepcopy(target) if op == "deepcopy" else _pickle.loads(_pickle.dumps(target))
                if not isinstance(res, Sid) or snap(res) != snap(target) or not (res == target):
                    out.add(f"C14/{op}/differs", f"{op} of {target!r} ({snap(target)}) gave {res!r} ({snap(res) if isinstance(res, Sid) else res})")
            elif op == "div":
                res = target / arg["value"]
            elif op == "get":
                res = target.get(arg["key"])
            elif op == "fields":
                res = target.fields
            elif op == "as_query":
                res = target.as_query()
            elif op == "uri":
                res = target.uri
            elif op == "path":
                res = target.path(arg["config"]) if arg["config"] else target.path()
            elif op == "match":
                res = target.match(arg["search"])
            elif op == "is_leaf":
                res = target.is_leaf()
            elif op == "is_search":
                res = target.is_search()
            elif op == "children":
                res = target.children()
            elif op == "siblings":
                res = target.siblings()
            elif op == "exists":
                res = target.exists()
            elif op == "keytype":
                res = (target.keytype, target.basetype)
            elif op == "len":
                res = len(target)
            elif op == "repr":
                res = repr(target)
            elif op == "eq":
                res = target == sids[arg["other"] % len(sids)]
            elif op == "hash":
                res = {target: 1}
            elif op == "sid_of_sid":
                res = Sid(target)
            elif op == "sid_from_fields":
                passed_dict = target.fields
                res = Sid(fields=passed_dict) if passed_dict else Sid()
        except Exception as e:
            labels.add("op-raised:" + type(e).__name__)
            res = None
        labels.add("op:" + op)
        before_derived = snap(res) if isinstance(res, Sid) else None
        try_mutate(res, out, labels)
        if passed_dict is not None:
            passed_dict.clear()
            passed_dict["x"] = "y"
            labels.add("mutated:passed-dict")
        if isinstance(res, Sid):
            now = snap(res)
            if now != before_derived:
                out.add("C14/derived-sid-mutated-through-fields-copy", f"{op}: derived {before_derived} -> {now}")
            derived = res
        if str(target) in shared and (isinstance(res, (dict, list, Sid)) or passed_dict is not None):
            touched_shared = True
        if not verify(f"step {n} {op} {arg}"):
            break

    # algebra on pairs
    for (i, a), (j, b) in itertools.combinations(list(enumerate(sids)), 2):
        eq = (a == b)
        if eq != (a.uri == b.uri) or (a != b) == eq:
            out.add("C14/eq-is-not-uri-equality", f"{a!r} == {b!r} is {eq}; uris {a.uri!r} {b.uri!r}")
        if eq and hash(a) != hash(b):
            out.add("C14/equal-sids-hash-differently", f"{a!r} and {b!r}")
    uris = {s.uri for s in sids}
    if len(set(sids)) != len(uris):
        out.add("C14/set-size-differs-from-distinct-uris", f"len(set) {len(set(sids))} vs {len(uris)} distinct uris of {sids!r}")
    d = {}
    for s_ in sids:
        d[s_] = s_.uri
    for s_ in sids:
        ok, fresh = call(Sid, s_.uri)
        if ok and s_.type and d.get(fresh) != s_.uri:
            out.add("C14/dict-lookup-by-equal-sid-fails", f"dict keyed by Sids: lookup with a new Sid({s_.uri!r}) gave {d.get(fresh)!r}")
    for s_ in sids:
        for text in {str(s_), s_.uri, str(s_) + " "}:
            if (s_ == text) != (str(s_) == text):
                out.add("C14/eq-with-string", f"{s_!r} == {text!r} is {s_ == text}")
    ok, srt = call(sorted, sids)
    if not ok:
        out.add(f"C14/sorted/raises/{type(srt).__name__}", f"sorted({sids!r}) raised {srt!r}")
    elif [str(x) for x in srt] != sorted(str(x) for x in sids):
        out.add("C14/sorted-not-by-string", f"sorted -> {[str(x) for x in srt]}")
    out.labels = sorted(labels)
    out.nontrivial = touched_shared
    return out


EVALUATORS = {"values": evaluate}


def run(ctx) -> Stats:
    n = int((600 if ctx.quick else 20000) * ctx.options.get("scale", 1.0))
    return drive(ctx, "values", cases(), evaluate, max_examples=n)
