"""
C09 - the '>' (last) operator returns the greatest entry of each group, whichever Finder serves it.
"""
from __future__ import annotations

from hypothesis import strategies as st

from vp import confmodel, gens, refsearch, reffind, tree
from vp.pbt import Outcome, Stats, call, drive, exc_sig

PROPERTY = "C09"
LEVEL = "exploration"
SHARDS = {"quick": 16, "thorough": 16}
RULE = ("universes of 3-16 path-backed entities whose free names separate whole-string from per-segment order (x, x-1, x.b, x+, x_y), "
        "materialised as a list, as a local file tree and through FindInAll's configured sources; 4 searches per universe with '>' at any "
        "position (directly or through a filter), optional second '>' further right, '*', comma lists, aliases, '**' elsewhere; plus "
        "sid.get_last(key) for 2 entities x every key of the Sid and the key of the next level. Each Finder is compared with the reference 'greatest remaining segments per "
        "group' computed over that Finder's own data (list entries / existing path-backed entities / configured sources); one case in four asks with as_sid=False. "
        "non-trivial = some group has >= 2 candidates and whole-string order differs from per-segment order, or >= 2 typed forms; "
        "distinct = (universe, search)")
ASSUMPTIONS = [
    "exact comparison only when every unfolded form carries its first '>' at the same index (otherwise counted as out of scope)",
    "results are compared as sets of strings (FindInAll and FindInList re-type results from strings)",
    "reference finder semantics in vp/reffind.py; sources per type obtained by probing the configuration's get_finder_for",
    "searches whose filter sets a narrowing key are skipped (see C07)",
]

_sources = {}


def _m():
    return confmodel.load()


def sources(model):
    if "s" not in _sources:
        _sources["s"] = reffind.probe_sources(model)
    return _sources["s"]


ORDER_NAMES = ["x", "x-1", "x.b", "x+", "x_y", "y", "x0", "X", "x9", "x10"]


@st.composite
def cases(draw):
    model = _m()
    m = model.sid
    pm = model.paths[model.default_config]
    ents = draw(gens.universe(m, types=[t for t in m.types if pm.has_path(t)], min_size=3, max_size=16, names=ORDER_NAMES))
    searches = []
    for _ in range(4):
        t, f = ents[draw(st.integers(0, len(ents) - 1))]
        if draw(st.integers(0, 9)) < 2:
            # any typed level of the entity (also constants-backed ones)
            anc = gens.ancestors(m, t, f)
            if anc:
                t, f = anc[draw(st.integers(0, len(anc) - 1))]
        searches.append(draw(gens.gt_search(m, t, f)))
    probes = []
    for _ in range(2):
        t, f = ents[draw(st.integers(0, len(ents) - 1))]
        probes.append([t, f])
    return {"entities": [[t, f] for t, f in ents], "searches": searches, "probes": probes,
            "as_str": draw(st.integers(0, 3)) == 0}


def strings(res):
    return sorted({e[2] for e in res.values()})


def evaluate(case) -> Outcome:
    from spil import FindInAll, FindInList, FindInPaths, Sid, SpilException
    model = _m()
    m = model.sid
    cname = model.default_config
    ents = [(t, f) for t, f in case["entities"]]
    tree.reset(model)
    tree.materialise(model, cname, ents)
    existing = tree.existing_set(model, cname, ents)
    world = reffind.World(model, existing, sources(model))
    L = sorted(e[2] for e in existing.values())
    out = Outcome(sample={"entities": [m.render(t, f) for t, f in ents][:8], "searches": [x["s"] for x in case["searches"]]})
    out.evaluations = 0
    nt_keys = []

    finders = {
        "list": (lambda: FindInList(list(L)), "list"),
        "paths": (lambda: FindInPaths(cname), "paths"),
        "all": (lambda: FindInAll(), "all"),
    }
    for sr in case["searches"]:
        s = sr["s"]
        for l in sr.get("labels", []):
            out.label(l)
        path, q = refsearch.split_search(s)
        if q and any(k in refsearch.narrowing_keys(m) for k, _ in refsearch.parse_query(q)):
            out.label("skipped:narrowing-key-filter")
            continue
        try:
            forms = refsearch.unfold(m, s)
        except refsearch.RefSpilException:
            out.label("skipped:ref-spil-exception")
            continue
        out.label(f"forms:{min(len(forms), 6)}")
        exp = {}
        try:
            exp["paths"] = world.search(s, "paths")
            exp["all"] = world.search(s, "all")
        except refsearch.RefSpilException:
            out.label("skipped:ref-spil-exception")
            continue
        if exp["paths"] is None:
            out.label("out-of-scope:gt-index-not-uniform")
            continue
        # list: candidates are strings
        gt_forms = [f for f in forms if ">" in f.string.split("/")]
        i = gt_forms[0].string.split("/").index(">") if gt_forms else None
        cand = {}
        for f in forms:
            for e in world.find_list(L, refsearch.Form(f.type, f.fields, f.string.replace(">", "*"))):
                cand[e] = (None, None, e)
        exp_list = reffind.last_per_group(cand, i) if i is not None else cand
        expected = {"list": sorted(exp_list), "paths": strings(exp["paths"]), "all": strings(exp["all"])}

        # non-triviality
        def order_sensitive(cands, idx):
            groups = {}
            for e in cands:
                segs = e.split("/")
                groups.setdefault(tuple(segs[:idx]), []).append(e)
            for g in groups.values():
                if len(g) >= 2 and max(g) != "/".join(max(x.split("/") for x in g)):
                    return True
            return False
        if i is not None and (len(forms) >= 2 or order_sensitive(list(cand), i)):
            nt_keys.append(s)
            if order_sensitive(list(cand), i):
                out.label("order-sensitive")

        for name, (mk, _) in finders.items():
            if case.get("as_str"):
                ok, got = call(lambda: list(mk().find(s, as_sid=False)))
                if ok and not all(isinstance(x, str) for x in got):
                    out.add(f"C09/{name}/as_sid-false-not-strings", f"{name}.find({s!r}, as_sid=False) -> {got!r}")
                    continue
            else:
                ok, got = call(lambda: [str(x) for x in mk().find(s)])
            out.evaluations += 1
            if not ok:
                out.add(f"C09/{name}/raises/{exc_sig(got)}", f"{name}.find({s!r}) raised {got!r}; entities {L}")
                continue
            if sorted(set(got)) != expected[name] or len(set(got)) != len(got):
                sig = f"C09/{name}/differs"
                if len(set(got)) != len(got):
                    sig = f"C09/{name}/duplicates"
                elif set(got) > set(expected[name]):
                    sig = f"C09/{name}/extra-results"
                elif set(got) < set(expected[name]):
                    sig = f"C09/{name}/missing-results"
                if name == "all" and len(set(got)) == len(got):
                    alt = reffind.search_per_source(world, s)
                    if alt is not None and strings(alt) == sorted(got):
                        sig = "C09/all/last-selected-per-source-not-overall"
                out.add(sig, f"{name}.find({s!r})\n got      {sorted(got)}\n expected {expected[name]}\n forms {[f.uri for f in forms]}\n data {L}")

    # get_last(key)
    for t, f in case["probes"]:
        sid = Sid(t + ":" + m.render(t, f))
        if not sid:
            continue
        # keys of the Sid itself, and the key of the NEXT level (when every type one level deeper ends in the same key)
        deeper = [x for x in m.types if m.keys(x)[:-1] == m.keys(t) and m.basetype(x) == m.basetype(t)]
        nxt = {m.keys(x)[-1] for x in deeper}
        for k in m.keys(t) + (sorted(nxt) if len(nxt) == 1 else []):
            if k in f:
                s = m.render(t, dict(f, **{k: ">"}))
            else:
                s = m.render(t, f) + "/>"
                out.label("get_last:next-level-key")
            try:
                res = world.search(s, "all")
            except refsearch.RefSpilException:
                continue
            if res is None:
                continue
            exp_strs = strings(res)
            ok, got = call(sid.get_last, k)
            out.evaluations += 1
            out.label("get_last")
            if not ok:
                out.add(f"C09/get_last/raises/{exc_sig(got)}", f"{sid!r}.get_last({k!r}) raised {got!r}")
                continue
            if len(exp_strs) > 1:
                out.label("get_last:several-reference-answers")
                continue
            if not exp_strs:
                if got:
                    out.add("C09/get_last/found-but-nothing-exists", f"{sid!r}.get_last({k!r}) = {got!r}; reference: nothing; data {L}")
            elif str(got) != exp_strs[0]:
                out.add("C09/get_last/differs", f"{sid!r}.get_last({k!r}) = {got!r}; reference {exp_strs[0]!r}; data {L}")
    out.nontrivial = bool(nt_keys)
    out.key = [L, nt_keys]
    out.evaluations = max(1, out.evaluations)
    return out


EVALUATORS = {"last": evaluate}


def run(ctx) -> Stats:
    n = int((300 if ctx.quick else 8000) * ctx.options.get("scale", 1.0))
    return drive(ctx, "last", cases(), evaluate, max_examples=n)
