"""
Process environment for a check worker.

Every worker process stages a private copy of the configuration package found in the
repository's *current working tree* (spil_hamlet_conf/{spil_*.py,hamlet_plugins}) into a scratch
directory, puts it first on sys.path, redirects HOME, silences the loggers and only then imports
spil from the repository root.  Because the conf modules compute their file-tree roots from
``__file__``, each worker owns an empty LOCAL/ and SERVER/ tree.

Environment variables:
  SPIL_VERIF_REPO      alternative repository root (used for sensitivity runs against mutants)
  SPIL_VERIF_CONF      alternative configuration package directory (C20)
  SPIL_VERIF_SCRATCH   parent directory for scratch (set by the runner, removed by it)
"""
from __future__ import annotations

import atexit
import contextlib
import logging
import os
import shutil
import sys
import tempfile
from pathlib import Path

REPO = Path(os.environ.get("SPIL_VERIF_REPO") or "/repo").resolve()
VERIF = Path(__file__).resolve().parent.parent

_state: dict = {}


def scratch_parent() -> Path:
    p = os.environ.get("SPIL_VERIF_SCRATCH")
    if p:
        return Path(p)
    base = Path("/dev/shm") if Path("/dev/shm").is_dir() and os.access("/dev/shm", os.W_OK) else Path(
        tempfile.gettempdir())
    return base


def stage(conf_dir: str | os.PathLike | None = None, import_spil: bool = True) -> Path:
    """Stages the configuration and prepares sys.path / HOME. Returns the scratch directory."""
    if _state.get("scratch"):
        return _state["scratch"]

    parent = scratch_parent()
    parent.mkdir(parents=True, exist_ok=True)
    scratch = Path(tempfile.mkdtemp(prefix=f"spilverif.w{os.getpid()}.", dir=str(parent)))
    _state["scratch"] = scratch
    _state["owner_pid"] = os.getpid()
    atexit.register(_cleanup)

    shared = os.environ.get("SPIL_VERIF_SHARED_CONF")
    if shared:
        # a helper process that must see the SAME trees as its parent worker: use its staged copy as it is
        conf_dst = Path(shared)
    else:
        conf_src = Path(conf_dir or os.environ.get("SPIL_VERIF_CONF") or (REPO / "spil_hamlet_conf"))
        conf_dst = scratch / "conf"
        conf_dst.mkdir()
        for item in sorted(conf_src.iterdir()):
            if item.is_file() and item.suffix == ".py":
                shutil.copy2(item, conf_dst / item.name)
            elif item.is_dir() and item.name.endswith("_plugins"):
                shutil.copytree(item, conf_dst / item.name,
                                ignore=shutil.ignore_patterns("__pycache__"))
    _state["conf"] = conf_dst

    home = scratch / "home"
    home.mkdir()
    os.environ["HOME"] = str(home)
    os.environ.pop("USERPROFILE", None)

    cwd = scratch / "cwd"
    cwd.mkdir()
    os.chdir(cwd)

    # conf first, then the repository root (before site-packages, so an alternative root wins)
    for p in (str(REPO), str(conf_dst)):
        while p in sys.path:
            sys.path.remove(p)
        sys.path.insert(0, p)
    sys.dont_write_bytecode = True

    if import_spil:
        silence_and_import()
    return scratch


def silence_and_import():
    import resolva  # noqa  (sets its own logger to INFO at import)
    logging.getLogger("resolva").setLevel(1000)
    import spil_sid_conf  # noqa
    from vp import confmodel
    confmodel.load_sid()   # snapshot of the raw sid conf BEFORE anything can mutate it
    import spil  # noqa
    from spil.util import log
    log.setLevel(1000)
    got = Path(spil.__file__).resolve().parent.parent
    if got != REPO:
        raise RuntimeError(f"spil imported from {got}, expected {REPO}")
    import spil_sid_conf
    if Path(spil_sid_conf.__file__).resolve().parent != _state["conf"].resolve():
        raise RuntimeError(f"spil_sid_conf imported from {spil_sid_conf.__file__}, expected staged copy")
    return spil


def scratch() -> Path:
    return _state["scratch"]


@contextlib.contextmanager
def debug_logging():
    """The library's own logger at DEBUG level (its output goes to the null device): what a user switches on
    'in case of problems' must not change any answer."""
    from spil.util import log
    lg = log.logger
    old = lg.level
    sink = open(os.devnull, "w")
    saved = []
    for h in list(lg.handlers):
        if hasattr(h, "setStream"):
            saved.append((h, h.setStream(sink)))
    lg.setLevel(logging.DEBUG)
    try:
        yield
    finally:
        lg.setLevel(old)
        for h, st in saved:
            if st is not None:
                h.setStream(st)
        sink.close()


def conf_dir() -> Path:
    return _state["conf"]


def _cleanup():
    if _state.get("owner_pid") != os.getpid():
        return  # forked child: not ours to remove
    sc = _state.get("scratch")
    if sc and sc.exists():
        try:
            os.chdir("/")
        except OSError:
            pass
        shutil.rmtree(sc, ignore_errors=True)


_clearers = []


def reset_caches():
    """Clears every cache of the code under test (spil's own cache decorators and resolva's lru_caches), so
    that each generated case starts from the post-import state and failures reproduce from the saved case."""
    if not _clearers:
        seen = set()
        for name, mod in list(sys.modules.items()):
            if not (name == "spil" or name.startswith("spil.") or name.startswith("resolva")):
                continue
            for attr, obj in list(vars(mod).items()):
                targets = [obj]
                if isinstance(obj, type):
                    targets += [v for v in vars(obj).values()]
                for o in targets:
                    cc = getattr(o, "cache_clear", None)
                    if callable(cc) and id(o) not in seen:
                        seen.add(id(o))
                        _clearers.append(cc)
        _clearers.append(lambda: None)
    for cc in _clearers:
        try:
            cc()
        except Exception:
            pass
