"""
Generators of configurations.

templates(): template-grammar generator for C19 (pure: dicts of type -> template, to_extrapolate, key_patterns).
"""
from __future__ import annotations

from hypothesis import strategies as st

SEP = "__"

BASETYPE_POOL = ["asset", "shot", "project", "shotgun", "render", "seq", "a", "type", "task_x", "shots"]
KEY_POOL = ["project", "type", "assettype", "asset", "sequence", "shot", "task", "version", "state", "ext", "node",
            "step", "frame", "seq", "a", "render", "pass", "layer"]
SPEC_POOL = [None, None, None, "a", "s", "w", "scenes", "movies", r"(w|p|\*|\>)", r"v\d\d\d"]


@st.composite
def templates(draw):
    """
    Returns dict(sid_templates=OrderedDict-like list of (name, template), to_extrapolate=[...], meta=...)
    Well-formed input: explicit type names unique, explicit templates unique strings.
    """
    nb = draw(st.integers(1, 4))
    basetypes = draw(st.lists(st.sampled_from(BASETYPE_POOL), min_size=nb, max_size=nb, unique=True))
    shared_prefix_len = draw(st.integers(0, 2))
    shared = draw(st.lists(st.sampled_from(KEY_POOL[:2] + ["root"]), min_size=shared_prefix_len, max_size=shared_prefix_len, unique=True))
    entries = []   # (name, template)
    to_extrapolate = []
    used_names = set()
    used_templates = set()
    for b in basetypes:
        n = draw(st.integers(2, 9))
        own = draw(st.lists(st.sampled_from(KEY_POOL), min_size=max(0, n - len(shared)), max_size=max(0, n - len(shared)), unique=True))
        keys = [k for k in shared] + [k for k in own if k not in shared]
        if len(keys) < 2:
            keys = (keys + ["k1", "k2"])[:2]
        # the basetype discriminator: one key gets a basetype-specific spec so that shared prefixes differ textually or not
        parts = []
        for i, k in enumerate(keys):
            spec = draw(st.sampled_from(SPEC_POOL))
            if i < len(shared) and draw(st.booleans()):
                spec = None   # shared, identical text across basetypes -> prefix owned by whoever comes first
            parts.append("{" + k + (":" + spec if spec else "") + "}")
        # explicit types: the deepest, plus a few leaf variants, plus arbitrary intermediate levels
        levels = draw(st.lists(st.integers(1, len(parts)), min_size=0, max_size=3, unique=True))
        levels = sorted(set(levels + [len(parts)]), reverse=draw(st.booleans()))
        for lv in levels:
            tpl = "/".join(parts[:lv])
            kname = keys[lv - 1]
            style = draw(st.sampled_from(["conv", "conv", "conv", "file", "bare", "odd"]))
            if style == "conv":
                name = b + SEP + kname
            elif style == "file":
                name = b + SEP + draw(st.sampled_from(["file", "movie_file", "cache_" + kname, "cache" + SEP + kname]))
            elif style == "bare":
                name = b
            else:
                name = draw(st.sampled_from(BASETYPE_POOL)) + SEP + draw(st.sampled_from(KEY_POOL))
            if name in used_names or tpl in used_templates:
                continue
            used_names.add(name)
            used_templates.add(tpl)
            entries.append((name, tpl))
            if draw(st.integers(0, 2)) > 0:   # also bare names (no separator) and names with two separators
                to_extrapolate.append(name)
        # leaf variants sharing all but the last spec (like file / movie_file / cache_file)
        if draw(st.booleans()):
            for v in range(draw(st.integers(1, 2))):
                tpl = "/".join(parts[:-1] + ["{" + keys[-1] + ":variant%d}" % v])
                name = b + SEP + f"variant{v}_file"
                if name not in used_names and tpl not in used_templates:
                    used_names.add(name)
                    used_templates.add(tpl)
                    entries.append((name, tpl))
                    if draw(st.booleans()):
                        to_extrapolate.append(name)
    if draw(st.booleans()):
        entries = draw(st.permutations(entries))
    # listed-but-absent and duplicate entries in to_extrapolate are harmless by statement
    if draw(st.integers(0, 5)) == 0:
        to_extrapolate.append("ghost" + SEP + "type")
    # key patterns
    names = [n for n, _ in entries]
    sel_pool = ["__", "t", "asset__", "shot__", "zzz", "", "_file", "project"] + names[:3] + basetypes
    nsel = draw(st.integers(0, 4))
    key_patterns = []
    for _ in range(nsel):
        sel = draw(st.sampled_from(sel_pool))
        nrep = draw(st.integers(1, 3))
        reps = []
        for _ in range(nrep):
            k = draw(st.sampled_from(KEY_POOL))
            find = draw(st.sampled_from(["{" + k + "}", "{" + k + ":a}", "{" + k + ":w}", "{" + k + ":scenes}", "{" + k, k]))
            repl = draw(st.sampled_from(["{" + k + r":(x|y|\*)}", "{" + k + ":w}", "{" + k + "}", "{" + k + r":v\d}", "<" + k + ">"]))
            reps.append([find, repl])
        key_patterns.append([sel, reps])
    return {"sid_templates": [list(e) for e in entries], "to_extrapolate": to_extrapolate, "key_patterns": key_patterns}


# ================================================================================================
# Configuration packages (C20)
# ================================================================================================
"""
A Spec describes a whole configuration in the style of the demo one:

  project level (closed vocabulary, mapped to folder names)
  type level    (one code per basetype, mapped to a folder name)
  per basetype: a chain of levels (closed / digits / free), a 'state' like mapped closed level, leaf groups
                (each with its own extension vocabulary) and optionally a side branch (an extra free level before the leaf,
                for one of the leaf groups)
  path layout:  root/{project}/<fixed>/{type}/<folders...>/<file name built from some levels with a separator>.{leaf}
"""

DEMO_SPEC = {
    "keys": {"project": "project", "type": "type", "state": "state", "version": "version", "leaf": "ext", "node": "node"},
    "projects": {"hamlet": "HAMLET"},
    "fixed_folder": "PROD",
    "sep": "_",
    "states": {"w": "WORK", "p": "PUBLISH"},
    "version": ["v", 3],
    "basetypes": [
        {"name": "asset", "code": "a", "folder": "ASSETS", "out_folder": "OUTPUT",
         "levels": [{"key": "assettype", "kind": "closed", "values": ["char", "location", "prop", "fx"], "constants": True},
                    {"key": "asset", "kind": "free"},
                    {"key": "task", "kind": "closed", "values": ["art", "model", "surface", "rig"]}],
         "joined": [],   # indices (into levels) of levels whose folder name is the join of the previous level and itself
         "side_branch": False},
        {"name": "shot", "code": "s", "folder": "SHOTS", "out_folder": "EXPORT",
         "levels": [{"key": "sequence", "kind": "digits", "prefix": "sq", "width": 3},
                    {"key": "shot", "kind": "digits", "prefix": "sh", "width": 4},
                    {"key": "task", "kind": "closed", "values": ["board", "layout", "anim", "fx", "render", "comp"]}],
         "joined": [1],
         "side_branch": True},
    ],
    "project_basetype": "project",
    "groups": {"file": {"name": "scenes", "exts": ["ma", "mb", "hip", "blend", "hou", "psd", "nk", "maya"], "out": False},
               "movie_file": {"name": "movies", "exts": ["mp4", "mov", "avi", "movie"], "out": True},
               "cache_file": {"name": "caches", "exts": ["abc", "json", "fur", "grm", "vdb", "cache"], "out": True}},
    "aliases": {"cache": ["abc", "json", "fur", "grm", "vdb"], "hou": ["hip", "hipnc"], "maya": ["ma", "mb"], "movie": ["mp4", "mov", "avi"]},
    "path_configs": ["local", "server"],
    "type_sep": "__",
}


def _pat(values):
    return "(" + "|".join(values) + r"|\*|\>)"


def render_package(spec: dict, target_dir) -> None:
    """Writes spil_sid_conf.py, spil_fs_conf.py, spil_fs_<cfg>_conf.py and spil_data_conf.py for the Spec."""
    import os
    from pathlib import Path
    K = spec["keys"]
    pk, tk, sk, vk, lk, nk = K["project"], K["type"], K["state"], K["version"], K["leaf"], K["node"]
    T = spec.get("type_sep", "__")
    target = Path(target_dir)
    target.mkdir(parents=True, exist_ok=True)
    vprefix, vwidth = spec["version"]

    sid_templates = []       # (name, template)
    to_extrapolate = []
    key_patterns = {"": {}}
    key_types = {}
    leaf_keys = {}
    narrowing = {}
    path_templates = []      # (name, relative template)
    kp_fs = {"": {}}

    key_patterns[""]["{%s}" % pk] = "{%s:%s}" % (pk, _pat(list(spec["projects"])))
    kp_fs[""]["{%s}" % pk] = "{%s:%s}" % (pk, _pat(list(spec["projects"].values())))
    key_patterns[""]["{%s}" % sk] = "{%s:%s}" % (sk, _pat(list(spec["states"])))
    kp_fs[""]["{%s}" % sk] = "{%s:%s}" % (sk, _pat(list(spec["states"].values())))
    vexpr = "(" + vprefix + r"\d" * vwidth + r"|\*|\>)"
    key_patterns[""]["{%s}" % vk] = "{%s:%s}" % (vk, vexpr)
    for gname, g in spec["groups"].items():
        key_patterns[""]["{%s:%s}" % (lk, g["name"])] = "{%s:%s}" % (lk, _pat(g["exts"]))

    sep = spec["sep"]
    fixed = spec["fixed_folder"]
    for b in spec["basetypes"]:
        bn, code = b["name"], b["code"]
        sel = bn + T
        key_patterns.setdefault(sel, {})
        key_patterns[""]["{%s:%s}" % (tk, code)] = "{%s:%s}" % (tk, _pat([code]))
        kp_fs[""]["{%s:%s}" % (tk, b["folder"])] = "{%s:%s}" % (tk, _pat([b["folder"]]))
        chain = ["{%s}" % pk, "{%s:%s}" % (tk, code)]
        for lv in b["levels"]:
            chain.append("{%s}" % lv["key"])
            if lv["kind"] == "closed":
                key_patterns[sel]["{%s}" % lv["key"]] = "{%s:%s}" % (lv["key"], _pat(lv["values"]))
            elif lv["kind"] == "digits":
                key_patterns[sel]["{%s}" % lv["key"]] = "{%s:(%s|\\*|\\>)}" % (lv["key"], lv["prefix"] + r"\d" * lv["width"])
        chain += ["{%s}" % vk, "{%s}" % sk]
        # leaf types
        for gname, g in spec["groups"].items():
            sid_templates.append((bn + T + gname, "/".join(chain + ["{%s:%s}" % (lk, g["name"])])))
        if b.get("side_branch"):
            g = spec["groups"]["cache_file"] if "cache_file" in spec["groups"] else list(spec["groups"].values())[-1]
            sid_templates.append((bn + T + "cache_%s_file" % nk, "/".join(chain + ["{%s}" % nk, "{%s:%s}" % (lk, g["name"])])))
            sid_templates.append((bn + T + "cache_%s" % nk, "/".join(chain + ["{%s}" % nk])))
        sid_templates.append((bn + T + sk, "/".join(chain)))
        to_extrapolate.append(bn + T + sk)
        sid_templates.append((bn, "/".join(chain[:2])))
        key_types[bn] = [pk, tk] + [lv["key"] for lv in b["levels"]] + [vk, sk] + ([nk] if b.get("side_branch") else []) + [lk]
        leaf_keys[bn] = lk
        narrowing[bn] = "%s=~%s" % (tk, code)

        # ---- paths
        folders = ["{%s}" % pk, fixed, "{%s:%s}" % (tk, b["folder"])]
        level_folders = []
        for i, lv in enumerate(b["levels"]):
            if i in b.get("joined", []) and i > 0:
                level_folders.append("{%s}%s{%s}" % (b["levels"][i - 1]["key"], sep, lv["key"]))
            else:
                level_folders.append("{%s}" % lv["key"])
        name_levels = [lv["key"] for lv in b["levels"]]
        fname = sep.join("{%s}" % k for k in name_levels + [sk, vk])
        vdir = "/".join(folders + level_folders + ["{%s}" % vk])
        for gname, g in spec["groups"].items():
            out = (b["out_folder"] + "/") if g["out"] else ""
            path_templates.append((bn + T + gname, vdir + "/" + out + fname + ".{%s:%s}" % (lk, g["name"])))
        if b.get("side_branch"):
            g = spec["groups"]["cache_file"] if "cache_file" in spec["groups"] else list(spec["groups"].values())[-1]
            fname_node = sep.join("{%s}" % k for k in name_levels + [nk, sk, vk])
            # the plain cache file of a side-branch basetype drops the last level from its name (as the demo does)
            path_templates = [pt for pt in path_templates if pt[0] != bn + T + "cache_file"]
            short = sep.join("{%s}" % k for k in name_levels[:-1] + [sk, vk])
            path_templates.append((bn + T + "cache_%s_file" % nk, vdir + "/" + b["out_folder"] + "/" + fname_node + ".{%s:%s}" % (lk, g["name"])))
            if "cache_file" in spec["groups"]:
                path_templates.append((bn + T + "cache_file", vdir + "/" + b["out_folder"] + "/" + short + ".{%s:%s}" % (lk, g["name"])))
        path_templates.append((bn + T + vk, vdir))
        for i in range(len(b["levels"]) - 1, -1, -1):
            path_templates.append((bn + T + b["levels"][i]["key"], "/".join(folders + level_folders[: i + 1])))
        path_templates.append((bn, "/".join(folders)))

    # "flat" basetypes: a short chain that ends in the version level, which is THEIR leaf key
    # (leaf keys are configured per basetype; one basetype's leaf key may be an intermediate key of another)
    for b in spec.get("flat_basetypes", []):
        bn, code = b["name"], b["code"]
        sel = bn + T
        key_patterns.setdefault(sel, {})
        key_patterns[""]["{%s:%s}" % (tk, code)] = "{%s:%s}" % (tk, _pat([code]))
        kp_fs[""]["{%s:%s}" % (tk, b["folder"])] = "{%s:%s}" % (tk, _pat([b["folder"]]))
        chain = ["{%s}" % pk, "{%s:%s}" % (tk, code)]
        for lv in b["levels"]:
            chain.append("{%s}" % lv["key"])
            if lv["kind"] == "closed":
                key_patterns[sel]["{%s}" % lv["key"]] = "{%s:%s}" % (lv["key"], _pat(lv["values"]))
            elif lv["kind"] == "digits":
                key_patterns[sel]["{%s}" % lv["key"]] = "{%s:(%s|\\*|\\>)}" % (lv["key"], lv["prefix"] + r"\d" * lv["width"])
        chain.append("{%s}" % vk)
        sid_templates.append((bn + T + vk, "/".join(chain)))
        to_extrapolate.append(bn + T + vk)
        sid_templates.append((bn, "/".join(chain[:2])))
        key_types[bn] = [pk, tk] + [lv["key"] for lv in b["levels"]] + [vk]
        leaf_keys[bn] = vk
        narrowing[bn] = "%s=~%s" % (tk, code)
        folders = ["{%s}" % pk, fixed, "{%s:%s}" % (tk, b["folder"])]
        level_folders = ["{%s}" % lv["key"] for lv in b["levels"]]
        path_templates.append((bn + T + vk, "/".join(folders + level_folders) + "/" + b["levels"][-1]["key"].join(["{", "}"]) + sep + "{%s}.edl" % vk))
        for i in range(len(b["levels"]) - 1, -1, -1):
            path_templates.append((bn + T + b["levels"][i]["key"], "/".join(folders + level_folders[: i + 1])))
        path_templates.append((bn, "/".join(folders)))

    pb = spec["project_basetype"]
    sid_templates.append((pb, "{%s}" % pk))
    key_types[pb] = [pk]
    leaf_keys[pb] = lk
    path_templates.append((pb, "{%s}" % pk))

    def dump(obj):
        return repr(obj)

    sid_conf = [
        "sip = '/'",
        "projects = %s" % dump(list(spec["projects"])),
        "sid_templates = {",
    ]
    sid_conf += ["    %r: %r," % (n, t) for n, t in sid_templates] + ["}"]
    sid_conf += [
        "to_extrapolate = %s" % dump(to_extrapolate),
        "extension_alias = %s" % dump(spec["aliases"]),
        "key_patterns = %s" % dump(key_patterns),
        "key_types = %s" % dump(key_types),
        "leaf_keys = %s" % dump({**leaf_keys, None: lk}),
        "basetyped_search_narrowing = %s" % dump(narrowing),
        "typed_search_narrowing = {}",
    ]
    (target / "spil_sid_conf.py").write_text("\n".join(sid_conf) + "\n")

    for i, cfg in enumerate(spec["path_configs"]):
        modname = "spil_fs_conf" if i == 0 else f"spil_fs_{cfg}_conf"
        lines = [
            "from pathlib import Path",
            "project_root_path = Path(__file__).parent / 'data' / 'testing' / 'SPIL_PROJECTS' / %r / 'PROJECTS'" % cfg.upper(),
            "_root = project_root_path.as_posix()",
            "path_templates = {",
        ]
        lines += ["    %r: _root + '/' + %r," % (n, t) for n, t in path_templates] + ["}"]
        # a path configuration may spell the mapped state names its own way (its own one-to-one mapping and patterns)
        states_here = {k: (v + spec["own_state_names"][cfg]) for k, v in spec["states"].items()} \
            if cfg in spec.get("own_state_names", {}) else spec["states"]
        mapping = {pk: {v: k for k, v in spec["projects"].items()},
                   tk: {b["folder"]: b["code"] for b in spec["basetypes"] + spec.get("flat_basetypes", [])},
                   sk: {v: k for k, v in states_here.items()}}
        kp = {sel: dict(v) for sel, v in key_patterns.items()}
        for sel, v in kp_fs.items():
            kp.setdefault(sel, {}).update(v)
        kp[""] = dict(kp.get("", {}))
        kp[""]["{%s}" % sk] = "{%s:%s}" % (sk, _pat(list(states_here.values())))
        # path templates name the type level by folder: the sid-side '{type:code}' patterns are irrelevant here
        lines += [
            "path_defaults = {%r: %r}" % (sk, list(states_here.values())[0]),
            "sidkeys_to_extrakeys = {}",
            "extrakeys_to_sidkeys = {}",
            "path_mapping = %s" % dump(mapping),
            "search_path_mapping = {}",
            "key_patterns = %s" % dump(kp),
        ]
        (target / f"{modname}.py").write_text("\n".join(lines) + "\n")

    consts = []
    for b in spec["basetypes"]:
        for lv in b["levels"][:1]:
            if lv.get("constants") and lv["kind"] == "closed":
                consts.append((b["name"] + T + lv["key"], lv["key"], lv["values"]))
    data_conf = '''
from __future__ import annotations
from pathlib import Path

path_configs = %(path_configs)r
default_path_config = %(default)r

_finders_by_config = {}
_getters_by_config = {}


def _create_finders():
    from spil import FindInConstants, FindInPaths
    finder_paths = FindInPaths()
    finder_projects = FindInConstants(%(pk)r, %(projects)r)
    finder_types = FindInConstants(%(tk)r, %(codes)r, parent_source=finder_projects)
    finder_states = FindInConstants(%(sk)r, %(states)r, parent_source=finder_paths)
    table = {%(pb)r: finder_projects, 'default': finder_paths}
    for bn in %(bnames)r:
        table[bn] = finder_types
        table[bn + %(T)r + %(sk)r] = finder_states
    for bn in %(flatnames)r:
        table[bn] = finder_types
    for tname, key, values in %(consts)r:
        table[tname] = FindInConstants(key, values, parent_source=finder_types)
    return table


def get_finder_for(search_sid, config=None):
    table = _finders_by_config.get(config)
    if table is None:
        table = _create_finders()
        _finders_by_config[config] = table
    return table.get(search_sid.type) or table.get('default')


def get_getter_for(sid, attribute=None, config=None):
    from spil import GetFromPaths
    table = _getters_by_config.get(config)
    if table is None:
        table = {'default': GetFromPaths()}
        for bn in %(bnames)r + %(flatnames)r:
            table[bn] = None
        table[%(pb)r] = None
        _getters_by_config[config] = table
    if sid.type in table:
        return table.get(sid.type)
    return table.get('default')


def get_writer_for(sid):
    raise NotImplementedError()


path_data_suffix = '.data.json'
create_file_using_template = {}
create_file_using_touch = True


def get_data_json_path(sid_path: Path) -> Path:
    return sid_path.with_name('.' + sid_path.name).with_suffix(path_data_suffix)
''' % {
        "path_configs": {cfg: ("spil_fs_conf" if i == 0 else f"spil_fs_{cfg}_conf") for i, cfg in enumerate(spec["path_configs"])},
        "default": spec.get("default_path_config") or spec["path_configs"][0],
        "pk": pk, "tk": tk, "sk": sk, "pb": pb, "T": T,
        "projects": list(spec["projects"]),
        "codes": [b["code"] for b in spec["basetypes"] + spec.get("flat_basetypes", [])],
        "flatnames": [b["name"] for b in spec.get("flat_basetypes", [])],
        "states": list(spec["states"]),
        "bnames": [b["name"] for b in spec["basetypes"]],
        "consts": consts,
    }
    (target / "spil_data_conf.py").write_text(data_conf)


KEY_RENAMES = {"project": ["project", "prj", "show"], "type": ["type", "kind", "cat"], "state": ["state", "status", "st"],
               "version": ["version", "ver", "take"], "leaf": ["ext", "fmt", "suffix"], "node": ["node", "layer", "part"]}
LEVEL_KEY_POOL = ["assettype", "asset", "sequence", "shot", "task", "step", "dept", "name", "episode", "seq", "group", "item",
                  "asset_type", "shot_nr", "lvl2"]
CLOSED_POOLS = [["char", "location", "prop", "fx"], ["art", "model", "surface", "rig"], ["board", "layout", "anim", "fx", "render", "comp"],
                ["mod", "tex", "shd"], ["k1", "k2"], ["main", "alt", "test", "dev", "x9"]]
EXT_POOLS = [["ma", "mb", "hip", "blend", "hou", "psd", "nk", "maya"], ["mp4", "mov", "avi", "movie"], ["abc", "json", "fur", "grm", "vdb", "cache"],
             ["usd", "usda", "usdc", "scene"], ["exr", "png", "jpg", "img"], ["bgeo", "sim", "vdbs", "fxcache"]]


@st.composite
def specs(draw):
    """A Spec derived from the demo one by a random subset of transformations. Returns (spec, changed dimensions)."""
    import copy
    spec = copy.deepcopy(DEMO_SPEC)
    dims = []

    def chance(p=35):
        return draw(st.integers(0, 99)) < p

    # 1. key names
    if chance():
        for role, opts in KEY_RENAMES.items():
            spec["keys"][role] = draw(st.sampled_from(opts))
        if spec["keys"] != DEMO_SPEC["keys"]:
            dims.append("rename-keys")
        if spec["keys"]["leaf"] != "ext":
            dims.append("rename-leaf-key")
    reserved = set(spec["keys"].values())
    # 2. basetype names, codes, folders
    if chance():
        names = draw(st.lists(st.sampled_from(["asset", "shot", "elem", "plan", "lib", "seq", "as", "sh", "lib_asset", "my_shot", "a_b_c", "shot2"]), min_size=2, max_size=2, unique=True))
        codes = draw(st.lists(st.sampled_from(["a", "s", "x", "y", "e", "lib", "A"]), min_size=2, max_size=2, unique=True))
        for b, n, c in zip(spec["basetypes"], names, codes):
            b["name"], b["code"], b["folder"] = n, c, draw(st.sampled_from([n.upper() + "S", "DIR_" + c, n + "_lib"]))
        spec["project_basetype"] = draw(st.sampled_from(["project", "prj", "root"]))
        dims.append("rename-basetypes")
    # 3. levels: rename level keys, swap vocabularies, digit widths, insert / remove a level
    if chance(45):
        for b in spec["basetypes"]:
            used = set(reserved)
            for lv in b["levels"]:
                if chance(50):
                    cand = [k for k in LEVEL_KEY_POOL if k not in used and k != b["name"]]
                    lv["key"] = draw(st.sampled_from(cand))
                used.add(lv["key"])
                if lv["kind"] == "closed" and chance(50):
                    lv["values"] = list(draw(st.sampled_from(CLOSED_POOLS)))
                if lv["kind"] == "digits" and chance(50):
                    lv["prefix"] = draw(st.sampled_from(["sq", "sh", "s", "ep", "e", ""]))
                    lv["width"] = draw(st.integers(1, 4))
            # unique keys inside the basetype
            seen, uniq = set(reserved), []
            for lv in b["levels"]:
                if lv["key"] in seen:
                    lv["key"] = lv["key"] + "2"
                seen.add(lv["key"])
        dims.append("levels-renamed-or-revalued")
    if chance(25):
        b = spec["basetypes"][draw(st.integers(0, len(spec["basetypes"]) - 1))]
        if chance(50) and len(b["levels"]) > 1:
            i = draw(st.integers(0, len(b["levels"]) - 1))
            del b["levels"][i]
            b["joined"] = []
            dims.append("level-removed")
        else:
            keys_used = {lv["key"] for lv in b["levels"]} | reserved
            k = draw(st.sampled_from([x for x in LEVEL_KEY_POOL if x not in keys_used and x != b["name"]]))
            kind = draw(st.sampled_from(["closed", "digits"]))
            lv = {"key": k, "kind": kind}
            if kind == "closed":
                lv["values"] = list(draw(st.sampled_from(CLOSED_POOLS)))
            else:
                lv["prefix"], lv["width"] = draw(st.sampled_from(["d", "ep", ""])), draw(st.integers(1, 3))
            b["levels"].insert(draw(st.integers(0, len(b["levels"]))), lv)
            b["joined"] = []
            dims.append("level-inserted")
    # a digits level with an empty prefix next to the version would still be exclusive by position: fine.
    for b in spec["basetypes"]:
        nfree = sum(1 for lv in b["levels"] if lv["kind"] == "free")
        if nfree:
            b["side_branch"] = False if b.get("side_branch") and nfree else b.get("side_branch", False)
        # a joined folder name ('{a}<sep>{b}') may end in a free value when the value before it is closed or digits (unique split)
        b["joined"] = [i for i in b.get("joined", []) if 0 < i < len(b["levels"]) and b["levels"][i - 1]["kind"] != "free"]
        if not b["joined"] and chance(12):
            cand = [i for i in range(1, len(b["levels"])) if b["levels"][i]["kind"] == "free" and b["levels"][i - 1]["kind"] != "free"]
            if cand:
                b["joined"] = [cand[0]]
                dims.append("folder-joining-a-free-value")
        for lv in b["levels"]:
            lv.pop("constants", None)
        if b["levels"] and b["levels"][0]["kind"] == "closed":
            b["levels"][0]["constants"] = True
    if chance(20):
        b = spec["basetypes"][draw(st.integers(0, len(spec["basetypes"]) - 1))]
        if not any(lv["kind"] == "free" for lv in b["levels"]):
            b["side_branch"] = not b.get("side_branch")
            dims.append("side-branch-toggled")
    # 4. states, version, projects
    if chance():
        spec["states"] = draw(st.sampled_from([{"w": "WORK", "p": "PUBLISH"}, {"wip": "W", "pub": "P"}, {"w": "w", "p": "p", "r": "REVIEW"}, {"a": "A"}]))
        dims.append("states")
    if chance():
        spec["version"] = [draw(st.sampled_from(["v", "V", "r", ""])), draw(st.integers(2, 4))]
        dims.append("version-pattern")
    if chance(25):
        spec["projects"] = draw(st.sampled_from([{"hamlet": "HAMLET"}, {"hamlet": "HAMLET", "othello": "OTH"}, {"p1": "p1"}]))
        dims.append("projects")
    # 5. separators and folders
    if chance():
        spec["sep"] = draw(st.sampled_from(["_", "-", "__", "--"]))
        spec["fixed_folder"] = draw(st.sampled_from(["PROD", "work", "01_PROD", "a/b"]))
        for b in spec["basetypes"]:
            b["out_folder"] = draw(st.sampled_from(["OUTPUT", "EXPORT", "out", "_o"]))
        dims.append("separators-and-folders")
    # 6. leaf groups, extensions, aliases
    if chance():
        pools = draw(st.permutations(EXT_POOLS))
        for (gname, g), pool in zip(spec["groups"].items(), pools):
            g["exts"] = list(pool)
        if chance(30) and "movie_file" in spec["groups"]:
            del spec["groups"]["movie_file"]
        aliases = {}
        for g in spec["groups"].values():
            name = g["exts"][-1]
            members = g["exts"][: draw(st.integers(1, len(g["exts"]) - 1))]
            aliases[name] = members
            if chance(30):
                aliases[g["exts"][-2]] = [g["exts"][0], "zz" + g["exts"][0]]
        spec["aliases"] = aliases
        dims.append("extensions-and-aliases")
    # 7. third basetype
    if chance(20):
        used_names = {b["name"] for b in spec["basetypes"]} | {spec["project_basetype"]}
        used_codes = {b["code"] for b in spec["basetypes"]}
        n = draw(st.sampled_from([x for x in ["render", "lib", "edit", "post_fx"] if x not in used_names]))
        c = draw(st.sampled_from([x for x in ["r", "l", "z"] if x not in used_codes]))
        spec["basetypes"].append({"name": n, "code": c, "folder": n.upper(), "out_folder": "OUT",
                                  "levels": [{"key": "dept", "kind": "closed", "values": ["lgt", "cmp"], "constants": True},
                                             {"key": "item", "kind": "free"}],
                                  "joined": [], "side_branch": False})
        # keys must not clash with reserved names
        for lv in spec["basetypes"][-1]["levels"]:
            if lv["key"] in reserved:
                lv["key"] += "x"
        dims.append("third-basetype")
    if chance(20):
        used_names = {b["name"] for b in spec["basetypes"]} | {spec["project_basetype"]}
        used_codes = {b["code"] for b in spec["basetypes"]}
        n = draw(st.sampled_from([x for x in ["edit", "cutlist", "flat_b"] if x not in used_names]))
        c = draw(st.sampled_from([x for x in ["e", "q", "k"] if x not in used_codes]))
        lv = [{"key": "reel", "kind": "closed", "values": ["r1", "r2"]}, {"key": "cut", "kind": "free"}]
        for l in lv:
            if l["key"] in reserved:
                l["key"] += "_f"
        spec["flat_basetypes"] = [{"name": n, "code": c, "folder": n.upper(), "levels": lv if chance(60) else lv[:1]}]
        dims.append("leaf-key-per-basetype")
    # 8. third path configuration
    if chance(20):
        spec["path_configs"] = ["local", "server", "cloud"]
        dims.append("third-path-config")
    # 8a. a non-default path configuration with its own spelling of the mapped state names
    if len(spec["path_configs"]) > 1 and chance(30):
        spec["own_state_names"] = {spec["path_configs"][-1]: draw(st.sampled_from(["2", "_X", "old"]))}
        dims.append("own-mapping-per-path-config")
    # 8b. the default path configuration need not be the first one listed
    if chance(30):
        spec["default_path_config"] = draw(st.sampled_from(spec["path_configs"]))
        dims.append("default-path-config")
    # level keys must not clash with the (possibly renamed) reserved keys
    for b in spec["basetypes"]:
        for lv in b["levels"]:
            if lv["key"] in reserved:
                lv["key"] = lv["key"] + "_l"
    _disambiguate_key_orders(spec)
    return {"spec": spec, "dims": dims}


def _chains(spec):
    K = spec["keys"]
    out = []
    for b in spec["basetypes"]:
        out.append((b, [K["project"], K["type"]] + [lv["key"] for lv in b["levels"]] + [K["version"], K["state"]]
                    + ([K["node"]] if b.get("side_branch") else []) + [K["leaf"]]))
    for b in spec.get("flat_basetypes", []):
        out.append((b, [K["project"], K["type"]] + [lv["key"] for lv in b["levels"]] + [K["version"]]))
    return out


def _order_conflicts(spec):
    """Pairs (basetype, key) where a '/'-prefix of one basetype has the same key SET as a prefix of another, in another order."""
    chains = _chains(spec)
    bad = []
    for i, (b1, c1) in enumerate(chains):
        for b2, c2 in chains[i + 1:]:
            for n in range(3, min(len(c1), len(c2)) + 1):
                if set(c1[:n]) == set(c2[:n]) and c1[:n] != c2[:n]:
                    for j in range(n):
                        if c1[j] != c2[j] and any(lv["key"] == c2[j] for lv in b2["levels"]):
                            bad.append((b2, c2[j]))
    return bad


def _disambiguate_key_orders(spec):
    """
    Convention kept by well-formed configurations: a dictionary of fields identifies its type by its KEY SET, so two
    types (of different basetypes) never have the same key set in a different key order. Renaming level keys at
    random can break this (basetype A: asset/sequence, basetype B: sequence/asset); colliding keys of the later
    basetype are renamed.
    """
    for _ in range(10):
        bad = _order_conflicts(spec)
        if not bad:
            break
        b2, key = bad[0]
        for lv in b2["levels"]:
            if lv["key"] == key:
                lv["key"] = key + "_" + b2["name"][:2]


def canonical_specs():
    """Deterministic members of the family: the demo Spec and one Spec per single transformation dimension."""
    import copy
    out = [({"spec": copy.deepcopy(DEMO_SPEC), "dims": []})]

    def variant(dim, fn):
        s = copy.deepcopy(DEMO_SPEC)
        fn(s)
        out.append({"spec": s, "dims": [dim, dim + "(canonical)"]})

    variant("rename-leaf-key", lambda s: s["keys"].update({"leaf": "fmt"}))
    variant("rename-keys", lambda s: s["keys"].update({"project": "show", "type": "kind", "state": "status", "version": "take", "leaf": "suffix", "node": "layer"}))

    def rename_bt(s):
        s["basetypes"][0].update({"name": "lib_elem", "code": "e", "folder": "ELEMS"})
        s["basetypes"][1].update({"name": "plan", "code": "x", "folder": "DIR_x"})
        s["project_basetype"] = "root"
    variant("rename-basetypes", rename_bt)

    def levels(s):
        lv = s["basetypes"][0]["levels"]
        lv[0].update({"key": "group", "values": ["mod", "tex", "shd"]})
        lv[1]["key"] = "name"
        lv[2].update({"key": "step", "values": ["main", "alt", "test", "dev", "x9"]})
        sv = s["basetypes"][1]["levels"]
        sv[0].update({"key": "episode", "prefix": "ep", "width": 2})
        sv[1].update({"key": "seq", "prefix": "", "width": 3})
    variant("levels-renamed-or-revalued", levels)

    def removed(s):
        del s["basetypes"][0]["levels"][0]
        s["basetypes"][0]["levels"][0]["kind"] = "free"
    variant("level-removed", removed)

    def inserted(s):
        s["basetypes"][1]["levels"].insert(2, {"key": "dept", "kind": "closed", "values": ["k1", "k2"]})
        s["basetypes"][1]["joined"] = [1]
    variant("level-inserted", inserted)
    def states(s):
        s.update({"states": {"wip": "W", "pub": "P", "r": "REVIEW"}})
        s["basetypes"][0]["joined"] = [1]      # asset folders named '<assettype>_<asset>' (as the demo names its shot folders)
    variant("states", states)
    variant("version-pattern", lambda s: s.update({"version": ["", 2]}))
    variant("projects", lambda s: s.update({"projects": {"hamlet": "HAMLET", "othello": "OTH"}, "own_state_names": {"server": "_SRV"}}))

    def seps(s):
        s["sep"] = "--"
        s["fixed_folder"] = "a/b"
        for b in s["basetypes"]:
            b["out_folder"] = "_o"
    variant("separators-and-folders", seps)

    def exts(s):
        s["groups"]["file"]["exts"] = ["usd", "usda", "usdc", "scene"]
        s["groups"]["movie_file"]["exts"] = ["exr", "png", "jpg", "img"]
        s["groups"]["cache_file"]["exts"] = ["bgeo", "sim", "vdbs", "fxcache"]
        s["aliases"] = {"scene": ["usd", "usda"], "img": ["exr", "png", "zzexr"], "fxcache": ["bgeo"], "vdbs": ["bgeo", "sim"]}
    variant("extensions-and-aliases", exts)

    def third(s):
        s["basetypes"].append({"name": "render", "code": "r", "folder": "RENDER", "out_folder": "OUT",
                               "levels": [{"key": "dept", "kind": "closed", "values": ["lgt", "cmp"], "constants": True}, {"key": "item", "kind": "free"}],
                               "joined": [], "side_branch": False})
    variant("third-basetype", third)
    variant("third-path-config", lambda s: s.update({"path_configs": ["local", "server", "cloud"], "default_path_config": "cloud"}))

    def side(s):
        s["basetypes"][1]["side_branch"] = False
    variant("side-branch-toggled", side)

    def flat(s):
        s["flat_basetypes"] = [{"name": "edit", "code": "e", "folder": "EDITS",
                                "levels": [{"key": "reel", "kind": "closed", "values": ["r1", "r2"]}, {"key": "cut", "kind": "free"}]}]
    variant("leaf-key-per-basetype", flat)
    return out


def spec_problems(spec) -> list:
    """Reasons why a Spec does not follow the conventions the properties assume (empty list = well-formed)."""
    import copy
    problems = []
    if _order_conflicts(spec):
        problems.append("two basetypes use the same level keys in a different order (a field dictionary would fit two key orders)")
    for b in spec["basetypes"]:
        if sum(1 for lv in b["levels"] if lv["kind"] == "free") > 1:
            problems.append(f"basetype {b['name']} has more than one free level in one file name")
    return problems


def json_dumps(obj):
    import json
    return json.dumps(obj, sort_keys=True)
