"""
Generators of configurations.

templates(): template-grammar generator for C19 (pure: dicts of type -> template, to_extrapolate, key_patterns).
"""
from __future__ import annotations

from hypothesis import strategies as st

SEP = "__"

BASETYPE_POOL = ["asset", "shot", "project", "shotgun", "render", "seq", "a", "type", "task_x", "shots"]
KEY_POOL = ["project", "type", "assettype", "asset", "sequence", "shot", "task", "version", "state", "ext", "node",
            "step", "frame", "seq", "a", "render", "pass", "layer"]
SPEC_POOL = [None, None, None, "a", "s", "w", "scenes", "movies", r"(w|p|\*|\>)", r"v\d\d\d"]


@st.composite
def templates(draw):
    """
    Returns dict(sid_templates=OrderedDict-like list of (name, template), to_extrapolate=[...], meta=...)
    Well-formed input: explicit type names unique, explicit templates unique strings.
    """
    nb = draw(st.integers(1, 4))
    basetypes = draw(st.lists(st.sampled_from(BASETYPE_POOL), min_size=nb, max_size=nb, unique=True))
    shared_prefix_len = draw(st.integers(0, 2))
    shared = draw(st.lists(st.sampled_from(KEY_POOL[:2] + ["root"]), min_size=shared_prefix_len, max_size=shared_prefix_len, unique=True))
    entries = []   # (name, template)
    to_extrapolate = []
    used_names = set()
    used_templates = set()
    for b in basetypes:
        n = draw(st.integers(2, 9))
        own = draw(st.lists(st.sampled_from(KEY_POOL), min_size=max(0, n - len(shared)), max_size=max(0, n - len(shared)), unique=True))
        keys = [k for k in shared] + [k for k in own if k not in shared]
        if len(keys) < 2:
            keys = (keys + ["k1", "k2"])[:2]
        # the basetype discriminator: one key gets a basetype-specific spec so that shared prefixes differ textually or not
        parts = []
        for i, k in enumerate(keys):
            spec = draw(st.sampled_from(SPEC_POOL))
            if i < len(shared) and draw(st.booleans()):
                spec = None   # shared, identical text across basetypes -> prefix owned by whoever comes first
            parts.append("{" + k + (":" + spec if spec else "") + "}")
        # explicit types: the deepest, plus a few leaf variants, plus arbitrary intermediate levels
        levels = draw(st.lists(st.integers(1, len(parts)), min_size=0, max_size=3, unique=True))
        levels = sorted(set(levels + [len(parts)]), reverse=draw(st.booleans()))
        for lv in levels:
            tpl = "/".join(parts[:lv])
            kname = keys[lv - 1]
            style = draw(st.sampled_from(["conv", "conv", "conv", "file", "bare", "odd"]))
            if style == "conv":
                name = b + SEP + kname
            elif style == "file":
                name = b + SEP + draw(st.sampled_from(["file", "movie_file", "cache_" + kname]))
            elif style == "bare":
                name = b
            else:
                name = draw(st.sampled_from(BASETYPE_POOL)) + SEP + draw(st.sampled_from(KEY_POOL))
            if name in used_names or tpl in used_templates:
                continue
            used_names.add(name)
            used_templates.add(tpl)
            entries.append((name, tpl))
            if SEP in name and draw(st.integers(0, 2)) > 0:
                to_extrapolate.append(name)
        # leaf variants sharing all but the last spec (like file / movie_file / cache_file)
        if draw(st.booleans()):
            for v in range(draw(st.integers(1, 2))):
                tpl = "/".join(parts[:-1] + ["{" + keys[-1] + ":variant%d}" % v])
                name = b + SEP + f"variant{v}_file"
                if name not in used_names and tpl not in used_templates:
                    used_names.add(name)
                    used_templates.add(tpl)
                    entries.append((name, tpl))
                    if draw(st.booleans()):
                        to_extrapolate.append(name)
    if draw(st.booleans()):
        entries = draw(st.permutations(entries))
    # listed-but-absent and duplicate entries in to_extrapolate are harmless by statement
    if draw(st.integers(0, 5)) == 0:
        to_extrapolate.append("ghost" + SEP + "type")
    # key patterns
    names = [n for n, _ in entries]
    sel_pool = ["__", "t", "asset__", "shot__", "zzz", "", "_file", "project"] + names[:3] + basetypes
    nsel = draw(st.integers(0, 4))
    key_patterns = []
    for _ in range(nsel):
        sel = draw(st.sampled_from(sel_pool))
        nrep = draw(st.integers(1, 3))
        reps = []
        for _ in range(nrep):
            k = draw(st.sampled_from(KEY_POOL))
            find = draw(st.sampled_from(["{" + k + "}", "{" + k + ":a}", "{" + k + ":w}", "{" + k + ":scenes}", "{" + k, k]))
            repl = draw(st.sampled_from(["{" + k + r":(x|y|\*)}", "{" + k + ":w}", "{" + k + "}", "{" + k + r":v\d}", "<" + k + ">"]))
            reps.append([find, repl])
        key_patterns.append([sel, reps])
    return {"sid_templates": [list(e) for e in entries], "to_extrapolate": to_extrapolate, "key_patterns": key_patterns}
