"""
Runner: shards a check over worker processes, merges their results, matches known findings,
writes evidence and replay files, sets the exit code.

  exit 0  property held on everything explored (KNOWN-FINDING lines for listed, still-failing findings)
  exit 1  + "VIOLATION property=<id> replay=<path>" per new root cause
  exit 2  harness error / inconclusive (never printed as a violation)
"""
from __future__ import annotations

import argparse
import hashlib
import importlib
import json
import os
import shutil
import subprocess
import sys
import tempfile
import time
from pathlib import Path

VERIF = Path(__file__).resolve().parent.parent
PY = sys.executable


def load_known(prop: str):
    f = VERIF / "known_findings.json"
    if not f.exists():
        return []
    data = json.loads(f.read_text())
    return [k for k in data.get("findings", []) if k.get("property") == prop and k.get("status") == "open"]


def main(argv=None):
    ap = argparse.ArgumentParser()
    ap.add_argument("check")
    ap.add_argument("--tier", default=os.environ.get("VERIF_TIER") or "quick", choices=["quick", "thorough"])
    ap.add_argument("--replay", default="")
    ap.add_argument("--shards", type=int, default=0)
    ap.add_argument("--scale", type=float, default=float(os.environ.get("VERIF_SCALE", "1")))
    ap.add_argument("--no-evidence", action="store_true")
    ap.add_argument("--no-shrink", action="store_true", help="report the first failing case of each signature as found (tools only)")
    a = ap.parse_args(argv)

    prop = a.check.upper()
    try:
        seed = int(os.environ.get("VERIF_SEED", "1") or "1")
    except ValueError:
        seed = 1
    t0 = time.time()

    sys.path.insert(0, str(VERIF))
    meta = _check_meta(prop)
    nshards = a.shards or meta["shards"].get(a.tier, 16)
    if a.replay:
        nshards = 1

    base = Path("/dev/shm") if Path("/dev/shm").is_dir() and os.access("/dev/shm", os.W_OK) else Path(tempfile.gettempdir())
    parent = Path(tempfile.mkdtemp(prefix=f"spilverif.r{os.getpid()}.", dir=str(base)))
    known = load_known(prop)
    known_file = parent / "known.json"
    known_file.write_text(json.dumps(known))

    envv = dict(os.environ)
    envv["SPIL_VERIF_SCRATCH"] = str(parent)
    envv.setdefault("PYTHONHASHSEED", "0")
    envv["PYTHONPATH"] = str(VERIF) + (os.pathsep + envv["PYTHONPATH"] if envv.get("PYTHONPATH") else "")
    envv["PYTHONDONTWRITEBYTECODE"] = "1"
    envv["PYTHONWARNINGS"] = "ignore"
    procs = []
    try:
        for sh in range(nshards):
            out = parent / f"result.{sh}.json"
            cmd = [PY, "-m", "vp.worker", "--check", prop, "--tier", a.tier, "--seed", str(seed),
                   "--shard", str(sh), "--nshards", str(nshards), "--out", str(out),
                   "--known", str(known_file), "--scale", str(a.scale)] + (["--no-shrink"] if a.no_shrink else [])
            if a.replay:
                cmd += ["--replay", str(Path(a.replay).resolve())]
            log = open(parent / f"log.{sh}.txt", "w")
            procs.append((sh, subprocess.Popen(cmd, cwd=str(VERIF), env=envv, stdout=log, stderr=subprocess.STDOUT), out, log))
        results = []
        errors = []
        for sh, p, out, log in procs:
            rc = p.wait()
            log.close()
            if out.exists():
                try:
                    r = json.loads(out.read_text())
                except Exception as e:
                    r = {"ok": False, "error": f"unreadable result: {e}"}
            else:
                r = {"ok": False, "error": f"worker {sh} wrote no result (rc={rc})\n" + (parent / f"log.{sh}.txt").read_text()[-3000:]}
            if not r.get("ok"):
                errors.append((sh, r.get("error", "?")))
            results.append(r)
        rc = finish(prop, a, meta, seed, nshards, known, results, errors, t0)
    finally:
        for _, p, _, _ in procs:
            if p.poll() is None:
                p.kill()
        shutil.rmtree(parent, ignore_errors=True)
    sys.exit(rc)


def _check_meta(prop: str) -> dict:
    """Static metadata of a check module, read without importing spil."""
    import ast
    src = (VERIF / "vp" / "checks" / f"{prop.lower()}.py").read_text()
    tree = ast.parse(src)
    meta = {"shards": {"quick": 16, "thorough": 16}, "level": "exploration", "rule": "", "assumptions": []}
    for node in tree.body:
        if isinstance(node, ast.Assign) and len(node.targets) == 1 and isinstance(node.targets[0], ast.Name):
            name = node.targets[0].id
            if name in ("SHARDS", "LEVEL", "RULE", "ASSUMPTIONS"):
                try:
                    meta[name.lower()] = ast.literal_eval(node.value)
                except Exception:
                    pass
    return meta


def finish(prop, a, meta, seed, nshards, known, results, errors, t0) -> int:
    if errors:
        for sh, e in errors[:3]:
            print(f"HARNESS-ERROR property={prop} shard={sh}\n{e}", file=sys.stderr)
        print(f"INCONCLUSIVE property={prop}: {len(errors)} worker(s) failed (harness error, not a violation)")
        return 2

    if a.replay:
        r = results[0]
        still = r.get("known_still_failing", {})
        tolerated = {s for s, v in still.items() if v}
        bad = [d for d in r.get("replay", []) if d["signature"] not in tolerated]
        for d in r.get("replay", []):
            print(f"  discrepancy {d['signature']}: {d['detail']}")
        if bad:
            print(f"VIOLATION property={prop} replay={a.replay}")
            return 1
        print(f"replay of {a.replay}: no violation")
        return 0

    still = results[0].get("known_still_failing", {})
    evaluations = sum(r.get("evaluations", 0) for r in results)
    cases = sum(r.get("cases", 0) for r in results)
    nontrivial = set()
    labels, known_hits, notes = {}, {}, []
    samples = []
    violations = {}
    for r in results:
        nontrivial.update(r.get("nontrivial", []))
        for k, v in r.get("labels", {}).items():
            labels[k] = labels.get(k, 0) + v
        for k, v in r.get("known_hits", {}).items():
            known_hits[k] = known_hits.get(k, 0) + v
        notes.extend(r.get("notes", []))
        for v in r.get("violations", []):
            violations.setdefault(v["signature"], v)
    for r in results:
        for s in r.get("samples", [])[: max(1, 24 // max(1, len(results)))]:
            if len(samples) < 24:
                samples.append(s)

    rc = 0
    for k in known:
        if still.get(k["signature"]):
            print(f"KNOWN-FINDING: property={prop} {k['what']} [signature {k['signature']}; "
                  f"{known_hits.get(k['signature'], 0)} generated cases hit it]")
        else:
            notes.append(f"known finding {k['signature']} no longer reproduces from its stored example; not tolerated")

    replay_dir = Path(os.environ.get("SPIL_VERIF_REPLAY_DIR") or (VERIF / "replay"))
    replay_dir.mkdir(parents=True, exist_ok=True)
    vio_out = []
    for sig, v in sorted(violations.items()):
        h = hashlib.sha1(sig.encode()).hexdigest()[:10]
        path = replay_dir / f"{prop}-{h}.json"
        rec = {"property": prop, "check": v["check"], "signature": sig, "detail": v["detail"],
               "case": v["case"], "seed": seed, "tier": a.tier, "shrunk": v.get("shrunk", False)}
        path.write_text(json.dumps(rec, indent=1, default=repr))
        print(f"VIOLATION property={prop} replay={path}")
        print(f"  signature: {sig}\n  detail: {v['detail'][:600]}")
        vio_out.append({"signature": sig, "replay": str(path), "detail": v["detail"][:400]})
        rc = 1

    wall = round(time.time() - t0, 2)
    if not a.no_evidence:
        ev = {
            "property_id": prop,
            "tier": a.tier,
            "seed": seed,
            "level": meta["level"],
            "coverage": {
                "evaluations": int(evaluations),
                "distinct_nontrivial": len(nontrivial),
                "rule": meta["rule"],
                "samples": samples,
                "cases": int(cases),
                "class_histogram": dict(sorted(labels.items())),
                "known_finding_hits": known_hits,
                "shards": nshards,
                "exhaustive": False,
                "notes": list(dict.fromkeys(notes))[:20],
            },
            "assumptions": meta["assumptions"],
            "wall_s": wall,
            "violations": len(vio_out),
            "violation_list": vio_out,
        }
        (VERIF / "evidence").mkdir(exist_ok=True)
        (VERIF / "evidence" / f"{prop}.json").write_text(json.dumps(ev, indent=1, default=repr))
    print(f"{prop} tier={a.tier} seed={seed} shards={nshards} cases={cases} evaluations={evaluations} "
          f"distinct_nontrivial={len(nontrivial)} violations={len(vio_out)} wall={wall}s")
    if rc == 0 and (evaluations < 1 or len(nontrivial) < 2):
        print(f"INCONCLUSIVE property={prop}: too few non-trivial cases generated (harness problem)")
        return 2
    return rc


if __name__ == "__main__":
    main()
