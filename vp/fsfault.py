"""
Recording / crash-injecting interposer for file-system effects (C17).

While active, every mutating file-system call made by the code under test through io.open / open, os.open (also
os.fdopen of such a descriptor, and os.write on it), os.replace, os.rename, os.mkdir, os.unlink / os.remove, os.rmdir, os.utime, os.truncate, os.link, os.symlink is
recorded as an *effect*. Files opened for writing are replaced by a proxy that performs the truncation / creation
immediately (as the OS does) and buffers written data like a buffered writer: each flush is one write effect of n bytes.

With a crash plan (effect index, byte offset) the interposer performs all effects before that point for real,
performs the first `byte offset` bytes of the planned write, and raises SimulatedCrash (a BaseException): the
"process dies", nothing buffered is flushed afterwards, later effects do not happen.
"""
from __future__ import annotations

import builtins
import io
import os
from contextlib import contextmanager

_real = {
    "io_open": io.open, "os_open": os.open, "replace": os.replace, "rename": os.rename, "mkdir": os.mkdir,
    "unlink": os.unlink, "remove": os.remove, "rmdir": os.rmdir, "utime": os.utime, "truncate": os.truncate,
    "link": os.link, "symlink": os.symlink, "write": os.write, "fsync": os.fsync,
}


class SimulatedCrash(BaseException):
    """The process dies here."""


class Session:
    def __init__(self, plan=None, deny_read=None):
        self.effects = []          # dicts: kind, path, n
        self.plan = plan           # (effect index, byte offset) or None
        self.crashed = False
        self.deny_read = set(deny_read or [])   # paths whose opening raises PermissionError
        self.write_fds = {}        # descriptors opened for writing through os.open: fd -> path

    # -- bookkeeping
    def before(self, kind, path, n=0):
        """Called before performing an effect. Returns the number of bytes allowed (for writes) or raises."""
        if self.crashed:
            raise SimulatedCrash()
        idx = len(self.effects)
        self.effects.append({"kind": kind, "path": str(path), "n": n})
        if self.plan is not None and idx == self.plan[0]:
            self.crashed = True
            if kind == "write":
                return self.plan[1]      # partial write of that many bytes, then crash
            raise SimulatedCrash()
        return None


class WriteProxy:
    """Stands for a file opened for writing. Creation / truncation happen at open time."""

    def __init__(self, session: Session, path, mode, encoding, buffering_limit=8192, fd=None):
        self.s = session
        self.path = os.fspath(path)
        self.encoding = "utf-8" if encoding in (None, "locale") else encoding
        self.binary = "b" in mode
        self.closed = False
        self.buf = bytearray()
        self.limit = buffering_limit
        self.name = self.path
        self.mode = mode
        if fd is not None:
            # adopts a descriptor that was opened (and recorded) through os.open: os.fdopen(os.open(...), "w")
            self.fd = fd
            return
        kind = "open-append" if "a" in mode else ("open-excl" if "x" in mode else "open-trunc")
        if "r" in mode and "+" in mode:
            kind = "open-rw"
        session.before(kind, self.path)
        flags = os.O_WRONLY | os.O_CREAT
        if "a" in mode:
            flags |= os.O_APPEND
        elif "x" in mode:
            flags |= os.O_EXCL
        elif "w" in mode:
            flags |= os.O_TRUNC
        self.fd = _real["os_open"](self.path, flags, 0o666)

    def write(self, data):
        if self.closed:
            raise ValueError("I/O operation on closed file.")
        if self.s.crashed:
            raise SimulatedCrash()
        if isinstance(data, str):
            if self.binary:
                raise TypeError("a bytes-like object is required, not 'str'")
            b = data.encode(self.encoding)
        else:
            b = bytes(data)
        self.buf += b
        if len(self.buf) >= self.limit:
            self.flush()
        return len(data)

    def writelines(self, lines):
        for l in lines:
            self.write(l)

    def flush(self):
        if self.s.crashed:
            raise SimulatedCrash()
        if not self.buf:
            return
        data = bytes(self.buf)
        self.buf.clear()
        allowed = self.s.before("write", self.path, len(data))
        if allowed is not None:
            if allowed:
                _real["write"](self.fd, data[:allowed])
            raise SimulatedCrash()
        _real["write"](self.fd, data)

    def close(self):
        if self.closed:
            return
        try:
            if not self.s.crashed:
                self.flush()
        finally:
            self.closed = True
            try:
                os.close(self.fd)
            except OSError:
                pass

    def fileno(self):
        return self.fd

    def writable(self):
        return True

    def readable(self):
        return False

    def __enter__(self):
        return self

    def __exit__(self, et, ev, tb):
        # a dying process flushes nothing
        if et is not None and issubclass(et, SimulatedCrash):
            self.closed = True
            try:
                os.close(self.fd)
            except OSError:
                pass
            return False
        self.close()
        return False


@contextmanager
def interpose(session: Session):
    def p_open(file, mode="r", buffering=-1, encoding=None, errors=None, newline=None, closefd=True, opener=None):
        if isinstance(file, int):
            if file in session.write_fds and any(c in mode for c in "wax+"):
                return WriteProxy(session, session.write_fds[file], mode, encoding, fd=file)
            return _real["io_open"](file, mode, buffering, encoding, errors, newline, closefd, opener)
        path = os.fspath(file)
        if session.crashed:
            raise SimulatedCrash()
        if any(c in mode for c in "wax+"):
            return WriteProxy(session, path, mode, encoding)
        if os.path.abspath(path) in session.deny_read:
            raise PermissionError(13, "Permission denied", path)
        return _real["io_open"](file, mode, buffering, encoding, errors, newline, closefd, opener)

    def p_os_open(path, flags, mode=0o777, *, dir_fd=None):
        if session.crashed:
            raise SimulatedCrash()
        if flags & (os.O_WRONLY | os.O_RDWR | os.O_CREAT | os.O_TRUNC | os.O_APPEND):
            existed = os.path.exists(path)
            kind = "os-open-create" if (flags & os.O_CREAT and not existed) else ("os-open-trunc" if flags & os.O_TRUNC else "os-open-write")
            session.before(kind, path)
        elif os.path.abspath(os.fspath(path)) in session.deny_read:
            raise PermissionError(13, "Permission denied", path)
        fd = _real["os_open"](path, flags, mode, dir_fd=dir_fd) if dir_fd is not None else _real["os_open"](path, flags, mode)
        if flags & (os.O_WRONLY | os.O_RDWR):
            session.write_fds[fd] = os.fspath(path)
        return fd

    def p_os_write(fd, data):
        if fd not in session.write_fds:
            return _real["write"](fd, data)
        data = bytes(data)
        allowed = session.before("write", session.write_fds[fd], len(data))
        if allowed is not None:
            if allowed:
                _real["write"](fd, data[:allowed])
            raise SimulatedCrash()
        return _real["write"](fd, data)

    def p_fsync(fd):
        if session.crashed:
            raise SimulatedCrash()
        return _real["fsync"](fd)

    def wrap2(name, kind):
        def f(src, dst, *a, **k):
            session.before(kind, f"{os.fspath(src)} -> {os.fspath(dst)}")
            try:
                return _real[name](src, dst, *a, **k)
            except OSError:
                session.effects[-1]["failed"] = True
                raise
        return f

    def wrap1(name, kind):
        def f(path, *a, **k):
            session.before(kind, path)
            try:
                return _real[name](path, *a, **k)
            except OSError:
                session.effects[-1]["failed"] = True   # attempt without effect (e.g. mkdir of an existing / parentless folder)
                raise
        return f

    patches = {
        (io, "open"): p_open, (builtins, "open"): p_open, (os, "open"): p_os_open, (os, "write"): p_os_write, (os, "fsync"): p_fsync,
        (os, "replace"): wrap2("replace", "replace"), (os, "rename"): wrap2("rename", "rename"),
        (os, "link"): wrap2("link", "link"), (os, "symlink"): wrap2("symlink", "symlink"),
        (os, "mkdir"): wrap1("mkdir", "mkdir"), (os, "unlink"): wrap1("unlink", "unlink"), (os, "remove"): wrap1("remove", "unlink"),
        (os, "rmdir"): wrap1("rmdir", "rmdir"), (os, "utime"): wrap1("utime", "utime"), (os, "truncate"): wrap1("truncate", "truncate"),
    }
    saved = {}
    try:
        for (mod, attr), fn in patches.items():
            saved[(mod, attr)] = getattr(mod, attr)
            setattr(mod, attr, fn)
        # pathlib keeps no private references to these on 3.12 (it calls io.open / os.* through the modules)
        yield session
    finally:
        for (mod, attr), fn in saved.items():
            setattr(mod, attr, fn)


def crash_points(effects):
    """All crash points of a recorded effect list: before each effect, and inside each write at every byte boundary
    (0 .. n-1 bytes written; 'all n bytes written' is the point before the next effect / the end)."""
    pts = []
    for i, e in enumerate(effects):
        if e.get("failed"):
            continue
        if e["kind"] == "write":
            for k in range(0, e["n"]):
                pts.append((i, k))
        else:
            pts.append((i, 0))
    return pts
