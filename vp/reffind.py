"""
Reference model of the Finders (C09 - C12): what a search must return for a given set of existing entities.

Sources per type are obtained by probing the configuration's get_finder_for() with one typed search per
type and reading the returned object's class / key / values / parent chain; the *semantics* of each source
kind are re-implemented here from the documentation of the Finders and the property statements.
"""
from __future__ import annotations

from typing import Dict, List, Optional, Set, Tuple

from vp import refsearch
from vp.refsearch import Form, glob_match


class Source:
    pass


class PathsSource(Source):
    kind = "paths"

    def __init__(self, config):
        self.config = config

    def __repr__(self):
        return f"paths({self.config})"


class ConstSource(Source):
    kind = "constants"

    def __init__(self, key, values, parent):
        self.key, self.values, self.parent = key, list(values), parent

    def __repr__(self):
        return f"const({self.key}={self.values} <- {self.parent})"


_described = {}


def describe_finder(obj) -> Source:
    """One Source object per Finder instance (FindInAll groups typed searches by Finder instance)."""
    if id(obj) in _described:
        return _described[id(obj)][1]
    name = type(obj).__name__
    if name == "FindInPaths":
        src = PathsSource(getattr(obj, "config_name", None))
    elif name == "FindInConstants":
        parent = getattr(obj, "parent_source", None)
        src = ConstSource(obj.key, obj.values, describe_finder(parent) if parent is not None else None)
    else:
        raise RuntimeError(f"unsupported finder kind in configuration: {name}")
    _described[id(obj)] = (obj, src)   # keeps obj alive so that its id stays unique
    return src


def probe_sources(model) -> Dict[str, Optional[Source]]:
    """type -> Source (or None) by probing conf.get_finder_for with an all-'*' search of that type."""
    from spil import Sid, conf
    out = {}
    for t in model.sid.types:
        s = "/".join("*" for _ in model.sid.keys(t))
        sid = Sid(f"{t}:{s}")
        if not sid or sid.type != t:
            out[t] = None
            continue
        f = conf.get_finder_for(sid, None)
        out[t] = describe_finder(f) if f else None
    return out


class World:
    """A set of existing path-backed entities (per path configuration) + the configured sources."""

    def __init__(self, model, existing: Dict[str, tuple], sources: Dict[str, Optional[Source]], default_config=None):
        self.model = model
        self.m = model.sid
        self.existing = existing          # uri -> (type, fields, string)
        self.sources = sources
        self.default_config = default_config or model.default_config

    # ---- single sources on one typed form (with '>' already read as '*')
    def find_paths(self, form: Form) -> Dict[str, tuple]:
        return {u: e for u, e in self.existing.items() if e[0] == form.type and glob_match(form.string, e[2])}

    def find_list(self, strings: List[str], form: Form) -> List[str]:
        return [s for s in dict.fromkeys(strings) if glob_match(form.string, s)]

    def _typed(self, fields: dict) -> Optional[Tuple[str, dict, str]]:
        ts = self.m.types_for_fields(fields)
        if not ts:
            return None
        t = ts[0]
        return t, dict(self.m.ordered(t, fields)), self.m.render(t, fields)

    def _natural(self, string: str):
        t, f = self.m.type_first(string)
        if not t:
            return None
        return t, dict(f), string

    def find_source_string(self, src: Source, search: str) -> Dict[str, tuple]:
        """src.find(search string): full find with unfolding, as a Finder does."""
        out = {}
        try:
            forms = refsearch.unfold(self.m, search)
        except refsearch.RefSpilException:
            return out
        for f in forms:
            out.update(self.find_source(src, f))
        return out

    def find_source(self, src: Optional[Source], form: Form) -> Dict[str, tuple]:
        if src is None:
            return {}
        if src.kind == "paths":
            return self.find_paths(form)
        # constants
        keys = self.m.keys(form.type)
        if src.key not in keys:
            return {}
        idx = keys.index(src.key)
        root_fields = {k: form.fields[k] for k in keys[: idx + 1]}
        root = self._typed(root_fields)
        if root is None:
            return {}
        rt, rf, rs = root
        out = {}
        parent_fields = {k: root_fields[k] for k in keys[:idx]}
        parent = self._typed(parent_fields) if parent_fields else None

        def parent_exists():
            # constants exist under an existing parent only (no parent source / no parent level: always)
            if src.parent is None or parent is None:
                return True
            pform = Form(parent[0], parent[1], parent[2])
            return bool(self.find_source(src.parent, pform))

        if "*" not in rs:
            if parent_exists():
                out[f"{rt}:{rs}"] = root
            return out
        if parent is not None and "*" in parent[2]:
            if src.parent is None:
                raise refsearch.RefSpilException("parent is a search but no parent source")
            for pu, (pt, pf, ps) in self.find_source_string(src.parent, parent[2]).items():
                if rf[src.key] != "*":
                    e = self._natural(ps + "/" + rf[src.key])
                    if e:
                        out[f"{e[0]}:{e[2]}"] = e
                else:
                    for v in src.values:
                        e = self._typed(dict(pf, **{src.key: v}))
                        if e:
                            out[f"{e[0]}:{e[2]}"] = e
            return out
        if not parent_exists():
            return out
        base = rf
        for v in src.values:
            e = self._typed(dict(base, **{src.key: v}))
            if e:
                out[f"{e[0]}:{e[2]}"] = e
        return out

    def find_all_form(self, form: Form) -> Dict[str, tuple]:
        return self.find_source(self.sources.get(form.type), form)

    # ---- whole searches
    def star(self, forms: List[Form], how) -> Dict[str, tuple]:
        out = {}
        for f in forms:
            ff = Form(f.type, {k: ("*" if v == ">" else v) for k, v in f.fields.items()}, f.string.replace(">", "*"))
            out.update(how(ff))
        return out

    def search(self, s: str, how="all") -> Optional[Dict[str, tuple]]:
        """
        Expected result of finder.find(s) as uri -> entity, or None when the '>' positions of the forms
        disagree (out of scope of the statement). how: 'all' | 'paths'.
        Raises RefSpilException where SpilException is expected.
        """
        forms = refsearch.unfold(self.m, s)
        fn = self.find_all_form if how == "all" else self.find_paths
        if not any(">" in f.string.split("/") for f in forms):
            return self.star(forms, fn)
        idxs = {f.string.split("/").index(">") for f in forms if ">" in f.string.split("/")}
        if len(idxs) != 1 or any(">" not in f.string.split("/") for f in forms):
            return None
        i = idxs.pop()
        cands = self.star(forms, fn)
        return last_per_group(cands, i)


def search_per_source(world: "World", s: str) -> Optional[Dict[str, tuple]]:
    """
    Alternative semantics used only to recognise a known finding: FindInAll runs the '>' selection once per
    configured source instead of once over the merged candidates.
    """
    forms = refsearch.unfold(world.m, s)
    gts = [f for f in forms if ">" in f.string.split("/")]
    if not gts:
        return None
    idxs = {f.string.split("/").index(">") for f in gts}
    if len(idxs) != 1 or len(gts) != len(forms):
        return None
    i = idxs.pop()
    by_src: Dict[int, list] = {}
    for f in forms:
        by_src.setdefault(id(world.sources.get(f.type)), []).append(f)
    out = {}
    for fs in by_src.values():
        out.update(last_per_group(world.star(fs, world.find_all_form), i))
    return out


def last_per_group(cands: Dict[str, tuple], i: int) -> Dict[str, tuple]:
    groups: Dict[tuple, list] = {}
    for u, e in cands.items():
        segs = e[2].split("/")
        groups.setdefault(tuple(segs[:i]), []).append((segs[i:], u, e))
    out = {}
    for g, items in groups.items():
        best = max(items, key=lambda x: x[0])
        # equal remaining segments (same string, different types): keep all such (the statement speaks of Sids by segments)
        for segs, u, e in items:
            if segs == best[0]:
                out[u] = e
    return out
