"""
"Fresh process" evaluator for C13.

The zygote stages its own configuration copy, imports spil ONCE, materialises a fixed data set, and then
forks a child per request: the child starts from the pristine post-import state (empty caches), executes a
sequence of calls, and sends the canonical results back through a pipe. One zygote per PYTHONHASHSEED.

Protocol (JSON lines on stdin/stdout):
  request  {"calls": [call, ...], "max_size": int|null}
  response {"results": [canonical result, ...]}   or {"error": "..."}
"""
from __future__ import annotations

import json
import os
import sys
import traceback
import warnings


def canon_sid(sid):
    return {"sid": [sid.type, str(sid), [[k, v] for k, v in sid.fields.items()], bool(sid)]}


class Exec:
    """Executes calls in the child. Results are canonical, JSON-able and independent of the scratch root."""

    def __init__(self, model, fixed_list):
        self.model = model
        self.fixed_list = fixed_list
        self.roots = {c: pm.root() for c, pm in model.paths.items()}
        self.alive = []   # partially consumed generators kept alive
        self.persist = {}  # long-lived Finder instances

    def rel(self, text):
        if not isinstance(text, str):
            return text
        for c, r in self.roots.items():
            text = text.replace(r, "{" + c + "}/")
        return text

    def canon(self, v):
        from spil import Sid
        from pathlib import PurePath
        if isinstance(v, Sid):
            return canon_sid(v)
        if isinstance(v, PurePath):
            return {"path": self.rel(str(v))}
        if isinstance(v, (list, tuple)):
            items = [self.canon(x) for x in v]
            return {"list": sorted(items, key=lambda x: json.dumps(x, sort_keys=True))}
        if isinstance(v, dict) and (set(v) == {"json"} or set(v) == {"ordered"}):
            return v
        if isinstance(v, (str, int, float, bool)) or v is None:
            return self.rel(v) if isinstance(v, str) else v
        return {"repr": type(v).__name__}

    def run(self, call):
        try:
            return self.canon(self._run(call))
        except BaseException as e:  # noqa: the exception type is the result
            if isinstance(e, (KeyboardInterrupt, SystemExit, MemoryError)):
                raise
            return {"raises": type(e).__name__}

    def _finder(self, name):
        from spil import FindInAll, FindInList, FindInPaths
        if name.endswith("@"):
            # one long-lived Finder instance per process: what it was asked before must not show
            if name not in self.persist:
                self.persist[name] = self._finder(name[:-1])
            return self.persist[name]
        if name == "list":
            return FindInList(list(self.fixed_list))
        if name == "all":
            return FindInAll()
        return FindInPaths(name.split(":", 1)[1])

    def _run(self, c):
        from spil import Sid
        k = c["k"]
        if k == "sid":
            return Sid(c["s"])
        if k == "sid_kw":
            return Sid(sid=c["s"])
        if k == "sid_of_sid":
            return Sid(Sid(c["s"]))
        if k == "sid_fields":
            return Sid(fields=dict(c["f"]))
        if k == "sid_query":
            return Sid(query=c["q"])
        if k == "sid_path":
            p = self.roots[c["root"]] + c["rel"]
            if c["config"] is None:
                return Sid(path=p)
            return Sid(path=p, config=c["config"])
        if k == "path":
            sid = Sid(c["uri"])
            if c["style"] == "default":
                return sid.path()
            if c["style"] == "kw":
                return sid.path(config=c["config"])
            return sid.path(c["config"])
        if k == "unfold":
            from spil.sid.read.tools import unfold_search
            if c["style"] == "kw":
                return unfold_search(c["s"], do_uniquify=c["u"], do_extrapolate=c["e"])
            if c["style"] == "sparse":
                # only the flags that are set, by keyword; the others are left to their defaults
                return unfold_search(c["s"], **{n: True for n, on in (("do_uniquify", c["u"]), ("do_extrapolate", c["e"])) if on})
            if c["style"] == "mixed":
                return unfold_search(c["s"], c["u"], do_extrapolate=c["e"])
            if c["style"] == "default" and not c["u"] and not c["e"]:
                return unfold_search(c["s"])
            return unfold_search(c["s"], c["u"], c["e"])
        if k == "match":
            return Sid(c["uri"]).match(c["s"])
        if k == "find_one":
            return self._finder(c["finder"]).find_one(c["s"])
        if k == "find":
            gen = self._finder(c["finder"]).find(c["s"])
            if c.get("consume") is None:
                if c.get("ordered"):
                    return {"ordered": [self.canon(x) for x in gen]}
                return list(gen)
            got = []
            for _ in range(c["consume"]):
                try:
                    got.append(next(gen))
                except StopIteration:
                    break
            self.alive.append(gen)
            return len(got)
        if k == "exists":
            return Sid(c["uri"]).exists()
        if k == "get_data":
            from spil import GetFromPaths
            return {"json": json.dumps(GetFromPaths(c.get("config")).get_data(c["uri"]), sort_keys=True, default=repr)}
        if k == "get_attr":
            v = Sid(c["uri"]).get_attr(c["attribute"])
            return {"json": json.dumps(v, sort_keys=True, default=repr)}
        if k == "create":
            from vp import tree
            t, f = c["entity"]
            tree.materialise(self.model, c["config"], [(t, f)])
            return None
        if k == "flood":
            n = 0
            for i in range(c["n"]):
                s = Sid(c["prefix"] + str(i))
                n += 1 if s else 0
                s.path()
            return n
        raise ValueError(f"unknown call {c}")


def main():
    warnings.filterwarnings("ignore")
    sys.path.insert(0, os.path.dirname(os.path.dirname(os.path.abspath(__file__))))
    from vp import env
    env.stage()
    from vp import confmodel, tree
    from vp.checks import c13
    model = confmodel.load()
    reader_only = bool(os.environ.get("SPIL_VERIF_SHARED_CONF"))
    if reader_only:
        fixed, fixed_list = [], []
    else:
        fixed = c13.fixed_universe(model)
        tree.reset(model)
        for cname in model.paths:
            tree.materialise(model, cname, fixed)
        existing = tree.existing_set(model, model.default_config, fixed)
        # a fixed, deliberately NOT alphabetical order (list order is what FindInList reports)
        import hashlib
        fixed_list = sorted((e[2] for e in existing.values()), key=lambda x: hashlib.md5(x.encode()).hexdigest())
    out = sys.stdout
    out.write(json.dumps({"ready": True, "hashseed": os.environ.get("PYTHONHASHSEED")}) + "\n")
    out.flush()
    for line in sys.stdin:
        line = line.strip()
        if not line:
            continue
        req = json.loads(line)
        if req.get("quit"):
            break
        r, w = os.pipe()
        pid = os.fork()
        if pid == 0:
            os.close(r)
            try:
                dn = os.open(os.devnull, os.O_WRONLY)
                os.dup2(dn, 1)
                os.dup2(dn, 2)
                if req.get("max_size"):
                    from spil.util import caching
                    caching._max_size = int(req["max_size"])
                ex = Exec(model, fixed_list)
                results = [ex.run(c) for c in req["calls"]]
                payload = json.dumps({"results": results})
            except BaseException as e:
                payload = json.dumps({"error": "".join(traceback.format_exception(type(e), e, e.__traceback__))[-3000:]})
            with os.fdopen(w, "w") as f:
                f.write(payload)
            # undo data changes of this child so that the next child starts from the fixed data set
            os._exit(0)
        os.close(w)
        with os.fdopen(r) as f:
            payload = f.read()
        os.waitpid(pid, 0)
        if not reader_only and any(c.get("k") == "create" for c in req["calls"]):
            tree.reset(model)
            for cname in model.paths:
                tree.materialise(model, cname, fixed)
        out.write((payload or json.dumps({"error": "child wrote nothing"})) + "\n")
        out.flush()
    env._cleanup()


if __name__ == "__main__":
    main()
