"""
File-tree materialisation of generated universes, under the worker's private configuration roots.
Paths come from the REFERENCE template rendering (vp.confmodel.PathModel), not from the library.
"""
from __future__ import annotations

import os
import shutil
from pathlib import Path
from typing import Dict, Iterable, List, Tuple

from vp import confmodel


def roots(model) -> Dict[str, str]:
    return {c: pm.root() for c, pm in model.paths.items()}


def reset(model):
    """Empties every configured tree root."""
    for root in roots(model).values():
        if not root or root == "/":
            raise RuntimeError(f"refusing to clean root {root!r}")
        r = Path(root)
        if "spilverif" not in str(r):
            raise RuntimeError(f"refusing to clean a root outside the scratch: {r}")
        if r.exists():
            shutil.rmtree(r, ignore_errors=True)
        # stray files next to the root (e.g. a sidecar written for the root's parent) must not leak into the next case
        par = r.parent
        if par.exists() and "spilverif" in str(par):
            for x in par.iterdir():
                if x.is_file() or x.is_symlink():
                    try:
                        x.unlink()
                    except OSError:
                        pass


def is_file_type(model, t: str) -> bool:
    return model.sid.is_leaf_type(t)


def materialise(model, cname: str, ents: Iterable[Tuple[str, dict]]) -> List[str]:
    """Creates the file / folder of every entity that has a path in configuration cname. Returns created paths."""
    pm = model.paths[cname]
    made = []
    for t, f in ents:
        if not pm.has_path(t):
            continue
        p = pm.render(t, f)
        if p is None:
            continue
        path = Path(p)
        if is_file_type(model, t):
            path.parent.mkdir(parents=True, exist_ok=True)
            if not path.exists():
                path.touch()
        else:
            path.mkdir(parents=True, exist_ok=True)
        made.append(p)
    return made


def existing_set(model, cname: str, ents: Iterable[Tuple[str, dict]]):
    """
    The path-backed entities that exist once ents are materialised: every entity with a path plus every
    '/'-prefix of it whose (first fitting) type has a path. Returns dict uri -> (type, fields, string).
    """
    from vp import gens
    m = model.sid
    pm = model.paths[cname]
    out = {}
    for t, f in ents:
        if not pm.has_path(t):
            continue
        for tt, ff in gens.ancestors(m, t, f) + [(t, f)]:
            if pm.has_path(tt):
                s = m.render(tt, ff)
                out.setdefault(f"{tt}:{s}", (tt, dict(ff), s))
    return out


def snapshot(root: str) -> Dict[str, object]:
    """Relative path -> ('d',) or ('f', bytes) for everything under root."""
    out = {}
    r = Path(root)
    if not r.exists():
        return out
    for dirpath, dirnames, filenames in os.walk(r):
        for d in dirnames:
            out[os.path.relpath(os.path.join(dirpath, d), r)] = ("d",)
        for fn in filenames:
            fp = os.path.join(dirpath, fn)
            try:
                out[os.path.relpath(fp, r)] = ("f", open(fp, "rb").read())
            except OSError:
                out[os.path.relpath(fp, r)] = ("f", None)
    return out


def restore(root: str, snap: Dict[str, object]):
    """Makes the tree under root identical to the snapshot."""
    r = Path(root)
    if r.exists():
        shutil.rmtree(r)
    r.mkdir(parents=True, exist_ok=True)
    for rel in sorted(snap):
        v = snap[rel]
        p = r / rel
        if v[0] == "d":
            p.mkdir(parents=True, exist_ok=True)
    for rel, v in snap.items():
        if v[0] == "f":
            p = r / rel
            p.parent.mkdir(parents=True, exist_ok=True)
            with open(p, "wb") as fh:
                fh.write(v[1] or b"")
