"""
REFERENCE MODEL of a spil configuration, computed from the *raw* configuration modules.

Nothing here imports spil.conf.* or resolva: extrapolation, pattern replacement, template parsing,
typing, dict -> type, canonical rendering and query application are re-implemented from the
statements of the properties, so that a change in the library cannot move the oracle with it.

The model is config-generic: every name comes from the loaded modules.
"""
from __future__ import annotations

import copy
import importlib
import re
from collections import OrderedDict
from typing import Dict, List, Optional, Tuple

SEP = "__"   # sidtype / keytype separator (library constant spil.conf.global_conf)
SIP = "/"    # sid separator
ORS = ","    # "or" separator
SEARCH_SYMBOLS = ["*", ",", ">", "<", "**"]


# ----------------------------------------------------------------------------------------------
# Template extrapolation and pattern replacement (C19 statement)
# ----------------------------------------------------------------------------------------------

def placeholder_key(part: str) -> str:
    """'{type:a}' -> 'type'"""
    p = part.strip()
    if p.startswith("{"):
        p = p[1:]
    if p.endswith("}"):
        p = p[:-1]
    return p.split(":", 1)[0]


def ref_extrapolate(templates: Dict[str, str], to_extrapolate: List[str], sep: str = SEP) -> "OrderedDict[str, str]":
    """
    Independent implementation of the C19 statement:
    explicit entries kept in order; directly after each extrapolated type, from longest to shortest,
    one type per '/'-prefix that no other type (explicit or generated) owns,
    named basetype + sep + last key of the prefix, skipped if the name is taken.
    """
    out: "OrderedDict[str, str]" = OrderedDict()
    explicit_templates = set(templates.values())
    explicit_names = set(templates.keys())
    for name, template in templates.items():
        out[name] = template
        if name not in to_extrapolate:
            continue
        basetype = name.split(sep)[0]
        parts = template.split("/")
        for n in range(len(parts) - 1, 0, -1):
            prefix = "/".join(parts[:n])
            if prefix in explicit_templates or prefix in set(out.values()):
                continue
            new_name = basetype + sep + placeholder_key(parts[n - 1])
            if new_name in explicit_names or new_name in out:
                continue
            out[new_name] = prefix
    return out


def ref_pattern_replacing(templates: Dict[str, str], key_patterns: Dict[str, Dict[str, str]]) -> "OrderedDict[str, str]":
    out: "OrderedDict[str, str]" = OrderedDict()
    for name, template in templates.items():
        for selector, repl in key_patterns.items():
            if selector in name:
                for find, replace in repl.items():
                    template = template.replace(find, replace)
        out[name] = template
    return out


# ----------------------------------------------------------------------------------------------
# Template parsing
# ----------------------------------------------------------------------------------------------

def parse_template(template: str) -> List[Tuple[str, object]]:
    """
    Splits a template into tokens: ('lit', text) and ('ph', key, expression-or-None).
    A placeholder is '{key}' or '{key:expr}' where expr may contain '\\}' and '\\{' escapes.
    """
    tokens: List[Tuple[str, object]] = []
    i, n = 0, len(template)
    lit = ""
    while i < n:
        c = template[i]
        if c == "{":
            # find the closing brace, skipping escaped ones
            j = i + 1
            buf = ""
            while j < n:
                if template[j] == "\\" and j + 1 < n and template[j + 1] in "{}":
                    buf += template[j + 1]
                    j += 2
                    continue
                if template[j] == "}":
                    break
                buf += template[j]
                j += 1
            if j >= n:  # unterminated: literal
                lit += template[i:]
                break
            if lit:
                tokens.append(("lit", lit))
                lit = ""
            if ":" in buf:
                key, expr = buf.split(":", 1)
            else:
                key, expr = buf, None
            tokens.append(("ph", key, expr))
            i = j + 1
        else:
            lit += c
            i += 1
    if lit:
        tokens.append(("lit", lit))
    return tokens


def sid_template_keys(template: str) -> List[Tuple[str, Optional[str]]]:
    """For a Sid template ('{a}/{b:expr}/...'), the ordered (key, expression) list, one per segment."""
    result = []
    for seg in split_template_segments(template):
        toks = parse_template(seg)
        phs = [t for t in toks if t[0] == "ph"]
        if len(toks) != 1 or len(phs) != 1:
            raise ValueError(f"Sid template segment is not a single placeholder: {seg!r} in {template!r}")
        result.append((phs[0][1], phs[0][2]))
    return result


def split_template_segments(template: str) -> List[str]:
    """Splits on '/' outside of placeholders."""
    segs, depth, cur = [], 0, ""
    i = 0
    while i < len(template):
        c = template[i]
        if c == "\\" and i + 1 < len(template):
            cur += template[i:i + 2]
            i += 2
            continue
        if c == "{":
            depth += 1
        elif c == "}":
            depth = max(0, depth - 1)
        if c == "/" and depth == 0:
            segs.append(cur)
            cur = ""
        else:
            cur += c
        i += 1
    segs.append(cur)
    return segs


_fullmatch_cache: dict = {}


def accepts(expr: Optional[str], value: str) -> bool:
    """Does the placeholder pattern accept the WHOLE value?  (pattern-less keys: anything but '/')"""
    if not isinstance(value, str):
        return False
    rx = _fullmatch_cache.get(expr)
    if rx is None:
        rx = re.compile(r"(?:%s)" % (expr if expr is not None else r"[^/]*"))
        _fullmatch_cache[expr] = rx
    if "/" in value and expr is None:
        return False
    return rx.fullmatch(value) is not None


# ----------------------------------------------------------------------------------------------
# Pattern analysis: closed vocabularies, digit patterns, free keys
# ----------------------------------------------------------------------------------------------

class KeySpec:
    """What a placeholder pattern accepts, as far as the small pattern language is understood."""

    def __init__(self, expr: Optional[str]):
        self.expr = expr
        self.free = expr is None
        self.literals: List[str] = []      # concrete literal alternatives
        self.digit_forms: List[Tuple[str, int]] = []  # (prefix, number of digits)
        self.symbols: List[str] = []       # search symbols accepted ('*', '>')
        self.opaque = False                # pattern not understood: use regex sampling
        if expr is not None:
            self._analyse(expr)

    def _analyse(self, expr: str):
        e = expr
        if e.startswith("(") and e.endswith(")") and _balanced(e[1:-1]):
            e = e[1:-1]
        for alt in _split_top(e, "|"):
            kind, val = _simple_alt(alt)
            if kind == "lit":
                if val in ("*", ">", "<", "**"):
                    self.symbols.append(val)
                else:
                    self.literals.append(val)
            elif kind == "digits":
                self.digit_forms.append(val)
            else:
                self.opaque = True

    @property
    def closed(self) -> bool:
        return not self.free and not self.opaque and not self.digit_forms

    def __repr__(self):
        return f"KeySpec(free={self.free}, lits={self.literals}, digits={self.digit_forms}, sym={self.symbols}, opaque={self.opaque})"


def _balanced(s: str) -> bool:
    d = 0
    i = 0
    while i < len(s):
        if s[i] == "\\":
            i += 2
            continue
        if s[i] == "(":
            d += 1
        elif s[i] == ")":
            d -= 1
            if d < 0:
                return False
        i += 1
    return d == 0


def _split_top(s: str, ch: str) -> List[str]:
    out, d, cur, i = [], 0, "", 0
    while i < len(s):
        c = s[i]
        if c == "\\" and i + 1 < len(s):
            cur += s[i:i + 2]
            i += 2
            continue
        if c in "([":
            d += 1
        elif c in ")]":
            d -= 1
        if c == ch and d == 0:
            out.append(cur)
            cur = ""
        else:
            cur += c
        i += 1
    out.append(cur)
    return out


def _simple_alt(alt: str):
    """Returns ('lit', text) | ('digits', (prefix, n)) | ('opaque', None)."""
    text, ndig, i = "", 0, 0
    seen_digit = False
    while i < len(alt):
        c = alt[i]
        if c == "\\" and i + 1 < len(alt):
            nxt = alt[i + 1]
            if nxt == "d":
                seen_digit = True
                ndig += 1
            elif nxt.isalnum():
                return "opaque", None
            else:
                if seen_digit:
                    return "opaque", None
                text += nxt
            i += 2
            continue
        if c in ".^$*+?{}[]()|":
            return "opaque", None
        if seen_digit:
            return "opaque", None
        text += c
        i += 1
    if seen_digit:
        return "digits", (text, ndig)
    return "lit", text


# ----------------------------------------------------------------------------------------------
# The Sid side of a configuration
# ----------------------------------------------------------------------------------------------

class SidModel:

    def __init__(self, raw: dict):
        self.raw = raw
        self.sid_templates_raw = OrderedDict(raw["sid_templates"])
        self.to_extrapolate = list(raw.get("to_extrapolate", []))
        self.key_patterns = raw.get("key_patterns", {})
        self.key_types = raw.get("key_types", {})
        self.leaf_keys = raw.get("leaf_keys", {})
        self.narrowing = raw.get("basetyped_search_narrowing", {})
        self.typed_narrowing = raw.get("typed_search_narrowing", {})
        self.extension_alias = raw.get("extension_alias", {})
        self.projects = raw.get("projects", [])

        extrapolated = ref_extrapolate(self.sid_templates_raw, self.to_extrapolate)
        self.templates = ref_pattern_replacing(extrapolated, self.key_patterns)
        self.types: List[str] = list(self.templates.keys())
        self.parsed: Dict[str, List[Tuple[str, Optional[str]]]] = {
            t: sid_template_keys(tpl) for t, tpl in self.templates.items()
        }
        self.specs: Dict[Tuple[str, str], KeySpec] = {}
        for t, kl in self.parsed.items():
            for k, e in kl:
                self.specs[(t, k)] = KeySpec(e)

    # -- basics
    def keys(self, t: str) -> List[str]:
        return [k for k, _ in self.parsed[t]]

    def basetype(self, t: str) -> str:
        return t.split(SEP)[0]

    def leaf_key(self, t: str):
        return self.leaf_keys.get(self.basetype(t))

    def is_leaf_type(self, t: str) -> bool:
        return self.keys(t)[-1] == self.leaf_key(t)

    def accepts(self, t: str, segments: List[str]) -> bool:
        kl = self.parsed[t]
        if len(kl) != len(segments):
            return False
        return all(accepts(e, s) for (k, e), s in zip(kl, segments))

    def accepts_value(self, t: str, k: str, v: str) -> bool:
        for kk, e in self.parsed[t]:
            if kk == k:
                return accepts(e, v)
        return False

    def fields_of(self, t: str, segments: List[str]) -> "OrderedDict[str, str]":
        return OrderedDict((k, s) for (k, _), s in zip(self.parsed[t], segments))

    # -- typing of strings (C01 statement)
    def type_first(self, s: str):
        """(type, fields) of the first template accepting s, else (None, None)."""
        if not s:
            return None, None
        segs = s.split(SIP)
        for t in self.types:
            if self.accepts(t, segs):
                return t, self.fields_of(t, segs)
        return None, None

    def type_forced(self, s: str, t: str):
        if not s or t not in self.parsed:
            return None, None
        segs = s.split(SIP)
        if self.accepts(t, segs):
            return t, self.fields_of(t, segs)
        return None, None

    def types_all(self, s: str) -> "OrderedDict[str, OrderedDict]":
        out = OrderedDict()
        if not s:
            return out
        segs = s.split(SIP)
        for t in self.types:
            if self.accepts(t, segs):
                out[t] = self.fields_of(t, segs)
        return out

    # -- typing of dictionaries
    def types_for_fields(self, fields: dict) -> List[str]:
        """Templates whose key set equals the dictionary's and which accept every value."""
        out = []
        if not fields:
            return out
        ks = set(fields.keys())
        for t in self.types:
            kl = self.parsed[t]
            if set(k for k, _ in kl) != ks or len(kl) != len(ks):
                continue
            if all(isinstance(fields[k], str) and accepts(e, fields[k]) for k, e in kl):
                out.append(t)
        return out

    def render(self, t: str, fields: dict) -> str:
        return SIP.join(fields[k] for k in self.keys(t))

    def ordered(self, t: str, fields: dict) -> "OrderedDict[str, str]":
        return OrderedDict((k, fields[k]) for k in self.keys(t))

    # -- queries (C04 statement)
    def overlay(self, fields: dict, pairs: List[Tuple[str, str]]) -> dict:
        """old fields + pairs ('~v' only if the key is present, prefix stripped)."""
        data = dict(fields or {})
        merged = OrderedDict()
        for k, v in pairs:   # later duplicate keys win (query string semantics)
            merged[k] = v
        for k, v in merged.items():
            optional = v.startswith("~")
            if optional:
                v = v.replace("~", "")
            if k in data or not optional:
                data[k] = v
        return data

    def apply_query(self, string: str, t: Optional[str], fields: Optional[dict], pairs, query_text: str):
        """
        Decision table of the C04 statement.
        Returns (string, type, fields, applied: bool, row: str)
        """
        new = self.overlay(fields or {}, pairs)
        T = self.types_for_fields(new)
        is_search = any(s in f"{string}?{query_text}" for s in SEARCH_SYMBOLS)
        if not T:
            return f"{string}?{query_text}", t, fields, False, "none"
        if len(T) == 1:
            nt = T[0]
            return self.render(nt, new), nt, self.ordered(nt, new), True, "one"
        if t in T:
            return self.render(t, new), t, self.ordered(t, new), True, "many-with"
        if is_search:
            # applied with *some* type in T
            return None, T, new, True, "many-without-search"
        return f"{string}?{query_text}", t, fields, False, "many-without-nonsearch"


# ----------------------------------------------------------------------------------------------
# The path side of a configuration
# ----------------------------------------------------------------------------------------------

class PathModel:
    """One path configuration (local, server, ...), from the raw fs conf module."""

    def __init__(self, name: str, raw: dict, sidmodel: SidModel):
        self.name = name
        self.raw = raw
        self.sid = sidmodel
        self.templates_raw = OrderedDict(raw["path_templates"])
        self.key_patterns = raw.get("key_patterns", {})
        self.templates = ref_pattern_replacing(self.templates_raw, self.key_patterns)
        self.mapping = raw.get("path_mapping", {})
        self.defaults = raw.get("path_defaults", {})
        self.tokens = {t: parse_template(tpl) for t, tpl in self.templates.items()}
        self.types = list(self.templates.keys())
        self._strict = {}

    def has_path(self, t: str) -> bool:
        return t in self.templates

    def map_value(self, t: str, key: str, value: str) -> str:
        """sid value -> path value (reverse of path_mapping: first key whose value equals)."""
        m = self.mapping.get(key)
        out = value
        if m:
            for pk, sv in m.items():
                if sv == value:
                    out = pk
                    break
        m2 = self.mapping.get((key, t))
        if m2:
            for pk, sv in m2.items():
                if sv == value:
                    out = pk
                    break
        return out

    def unmap_value(self, t: str, key: str, value: str) -> str:
        m = self.mapping.get(key)
        if m:
            value = m.get(value, value)
            m2 = self.mapping.get((key, t))
            if m2:
                value = m2.get(value, value)
        return value

    def render(self, t: str, fields: dict) -> Optional[str]:
        """Path string for (type, fields), or None if the type has no path or a value does not fit."""
        toks = self.tokens.get(t)
        if toks is None:
            return None
        out = ""
        for tok in toks:
            if tok[0] == "lit":
                out += tok[1]
            else:
                _, key, expr = tok
                if key not in fields:
                    return None
                v = self.map_value(t, key, fields[key])
                if not accepts(expr, v):
                    return None
                out += v
        return out

    def strict_regex(self, t: str):
        """Independent strict parser of type t's path template: literals escaped, whole-string match,
        repeated placeholders must carry the same text (back-references)."""
        rx = self._strict.get(t)
        if rx is None:
            seen = {}
            pat = ""
            for tok in self.tokens[t]:
                if tok[0] == "lit":
                    pat += re.escape(tok[1])
                else:
                    _, key, expr = tok
                    if key in seen:
                        pat += f"(?P=g{seen[key]})"
                    else:
                        seen[key] = len(seen)
                        pat += f"(?P<g{seen[key]}>(?:{expr if expr is not None else '[^/]*'}))"
            rx = (re.compile(pat, re.DOTALL), {v: k for k, v in seen.items()})
            self._strict[t] = rx
        return rx

    def parse(self, path: str):
        """(type, sid fields) of the first template that strictly matches the path and whose values,
        mapped back, fit the Sid template of that type; else (None, None)."""
        for t in self.types:
            rx, names = self.strict_regex(t)
            mt = rx.fullmatch(path)
            if not mt:
                continue
            fields = {}
            for idx, key in names.items():
                fields[key] = self.unmap_value(t, key, mt.group(f"g{idx}"))
            if t in self.sid.parsed and self.sid.types_for_fields(fields) and t in self.sid.types_for_fields(fields):
                if self.render(t, fields) == path:
                    return t, fields
        return None, None

    def conforms(self, path: str) -> bool:
        return self.parse(path)[0] is not None

    def literal_parts(self) -> List[str]:
        parts = set()
        for toks in self.tokens.values():
            for tok in toks:
                if tok[0] == "lit":
                    for p in re.split(r"[/_.]", tok[1]):
                        if p:
                            parts.add(p)
        return sorted(parts)

    def root(self) -> str:
        """Longest common leading literal of all templates (the configured root + '/')."""
        lits = [toks[0][1] if toks and toks[0][0] == "lit" else "" for toks in self.tokens.values()]
        if not lits:
            return ""
        pre = lits[0]
        for l in lits[1:]:
            while not l.startswith(pre):
                pre = pre[:-1]
        return pre


# ----------------------------------------------------------------------------------------------
# Loading
# ----------------------------------------------------------------------------------------------

def _module_values(modname: str) -> dict:
    mod = importlib.import_module(modname)
    out = {}
    for k, v in vars(mod).items():
        if k.startswith("__"):
            continue
        if isinstance(v, (dict, list, str, tuple, int, float, bool)) or v is None:
            try:
                out[k] = copy.deepcopy(v)
            except Exception:
                pass
    return out


_loaded: dict = {}


def load_sid() -> SidModel:
    if "sid" not in _loaded:
        _loaded["sid"] = SidModel(_module_values("spil_sid_conf"))
    return _loaded["sid"]


def load() -> "Model":
    """
    Loads the model from the configuration modules found first on sys.path.
    MUST be called before any path configuration is imported by the library: the demo fs conf
    mutates the nested key_patterns dicts of the sid conf on import.  (The order is enforced here:
    the sid conf is snapshot first.)
    """
    if "model" in _loaded:
        return _loaded["model"]
    sidmodel = load_sid()
    # Ordering only: the library must compute its own Sid templates from the pristine sid conf
    # before any fs conf module is imported (as in normal use, where `import spil` comes first).
    import spil  # noqa: F401
    data_mod = importlib.import_module("spil_data_conf")
    path_configs = OrderedDict(getattr(data_mod, "path_configs", {}))
    default_cfg = getattr(data_mod, "default_path_config", None) or (list(path_configs)[0] if path_configs else None)
    paths = OrderedDict()
    for name, modname in path_configs.items():
        paths[name] = PathModel(name, _module_values(modname), sidmodel)
    m = Model(sidmodel, paths, default_cfg, data_mod)
    _loaded["model"] = m
    return m


class Model:
    def __init__(self, sid: SidModel, paths: "OrderedDict[str, PathModel]", default_config, data_mod):
        self.sid = sid
        self.paths = paths
        self.default_config = default_config
        self.data_mod = data_mod
        self.path_data_suffix = getattr(data_mod, "path_data_suffix", ".data.json")
