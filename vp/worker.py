"""
One worker process of a check: stages its own configuration copy, runs the check's shard,
writes the result as JSON.  Exit code 0 unless the harness itself failed (then 2).
"""
from __future__ import annotations

import argparse
import importlib
import json
import os
import sys
import time
import traceback
import warnings
from dataclasses import dataclass, field
from typing import List, Set


@dataclass
class Ctx:
    prop: str
    tier: str
    seed: int
    shard: int
    nshards: int
    known: List[dict] = field(default_factory=list)          # open known findings of this property
    known_signatures: Set[str] = field(default_factory=set)  # those whose example still fails
    scratch: object = None
    options: dict = field(default_factory=dict)

    @property
    def quick(self) -> bool:
        return self.tier == "quick"


def main(argv=None):
    ap = argparse.ArgumentParser()
    ap.add_argument("--check", required=True)
    ap.add_argument("--tier", default="quick")
    ap.add_argument("--seed", type=int, default=1)
    ap.add_argument("--shard", type=int, default=0)
    ap.add_argument("--nshards", type=int, default=1)
    ap.add_argument("--out", required=True)
    ap.add_argument("--known", default="")
    ap.add_argument("--replay", default="")
    ap.add_argument("--scale", type=float, default=1.0)
    ap.add_argument("--no-shrink", action="store_true")
    a = ap.parse_args(argv)

    warnings.filterwarnings("ignore", category=SyntaxWarning)
    warnings.filterwarnings("ignore", category=DeprecationWarning)
    result = {"shard": a.shard, "ok": False}
    t0 = time.time()
    try:
        from vp import env, pbt
        scratch = env.stage()
        mod = importlib.import_module(f"vp.checks.{a.check.lower()}")
        known = json.load(open(a.known)) if a.known else []
        ctx = Ctx(prop=a.check, tier=a.tier, seed=a.seed, shard=a.shard, nshards=a.nshards,
                  known=known, scratch=scratch, options={"scale": a.scale, "shrink": (False if a.no_shrink else None)})

        # 1. replay the examples of the open known findings: only those still failing are tolerated
        still = {}
        for k in known:
            try:
                env.reset_caches()
                out = pbt.run_case(mod.EVALUATORS[k["example"]["check"]], k["example"]["case"])
                sigs = [d.signature for d in out.discrepancies]
                still[k["signature"]] = k["signature"] in sigs
            except Exception as e:  # an example that cannot be replayed is not tolerated
                still[k["signature"]] = False
                result.setdefault("notes", []).append(f"known example replay failed: {k['signature']}: {e!r}")
        ctx.known_signatures = {s for s, v in still.items() if v}
        result["known_still_failing"] = still

        if a.replay:
            rec = json.load(open(a.replay))
            env.reset_caches()
            out = pbt.run_case(mod.EVALUATORS[rec["check"]], rec["case"])
            result["replay"] = [{"signature": d.signature, "detail": d.detail} for d in out.discrepancies]
            result["ok"] = True
        else:
            stats = mod.run(ctx)
            result.update(stats.to_dict())
            result["ok"] = True
    except BaseException as e:  # harness error
        result["error"] = "".join(traceback.format_exception(type(e), e, e.__traceback__))[-6000:]
    result["wall_s"] = round(time.time() - t0, 2)
    with open(a.out, "w") as f:
        json.dump(result, f, default=repr)
    sys.stdout.flush()
    try:
        from vp import env as _env
        _env._cleanup()
    except Exception:
        pass
    os._exit(0 if result["ok"] else 2)


if __name__ == "__main__":
    main()
