"""
Hypothesis strategies, all derived from the reference model of the loaded configuration
(no demo key, type or value is named here).
"""
from __future__ import annotations

from typing import Dict, List, Optional

from hypothesis import strategies as st

from vp.confmodel import SidModel, KeySpec, SIP

# Free names. The small pool makes names collide / share prefixes; the wide one stresses typing.
SMALL_NAMES = ["x", "y", "x-1", "x.b", "x_y", "x+", "y2", "xx", "X", "a", "s", "w", "v001"]
WIDE_ALPHABET = "abxyz019_-.+ 'Aé\\\"~!@$^()[]{}|;=&%#"
JUNK_SEGMENTS = ["", " ", "bla", "hamlet ", "V001", "v01", "v0001", "sq1", "sh001", "A", "S", "**", "***", "*", ">", "<",
                 "x*", "*x", "v*", "ma,mb", "x,y", ",", "a,s", "\n", "x\n", "\nx", "\t", "\r", "\x00", "x\x00",
                 "é", "x y", ".", "..", "%20", "None"]
CONTROL = ["\n", "\r", "\t", "\x00", "\x0b", "\x1f", " "]


def free_name(wide: bool = False) -> st.SearchStrategy[str]:
    if not wide:
        return st.sampled_from(SMALL_NAMES)
    return st.one_of(
        st.sampled_from(SMALL_NAMES),
        st.text(alphabet=WIDE_ALPHABET, min_size=1, max_size=8),
    )


def concrete_value(spec: KeySpec, wide: bool = False, digits_dense: bool = False) -> st.SearchStrategy[str]:
    """A concrete (non-search) value accepted by the key's pattern."""
    if spec.free:
        return free_name(wide)
    options = []
    if spec.literals:
        options.append(st.sampled_from(spec.literals))
    for prefix, n in spec.digit_forms:
        hi = 10 ** n - 1
        if digits_dense:
            num = st.integers(0, min(hi, 6))
        else:
            num = st.one_of(st.integers(0, min(hi, 12)), st.integers(0, hi), st.sampled_from([0, hi, max(hi - 1, 0)]))
        options.append(num.map(lambda v, p=prefix, n=n: p + str(v).zfill(n)))
    if spec.opaque or not options:
        if spec.expr is not None:
            options.append(st.from_regex(r"(?:%s)" % spec.expr, fullmatch=True).filter(
                lambda v: v not in ("*", ">", "<", "**") and "/" not in v))
        else:
            options.append(free_name(wide))
    return st.one_of(*options)


def value(spec: KeySpec, search_p: float = 0.0, wide: bool = False, digits_dense: bool = False):
    """A value accepted by the pattern: concrete, or (with the given weight) a search symbol it accepts."""
    conc = concrete_value(spec, wide, digits_dense)
    syms = list(spec.symbols)
    if spec.free:
        syms = ["*", ">"]
    if not syms or search_p <= 0:
        return conc
    return st.integers(0, 99).flatmap(lambda r: st.sampled_from(syms) if r < search_p * 100 else conc)


@st.composite
def typed_fields(draw, model: SidModel, types: Optional[List[str]] = None, search_p: float = 0.0,
                 wide: bool = False, digits_dense: bool = False):
    """(type, ordered fields) with every value accepted by its pattern."""
    t = draw(st.sampled_from(types or model.types))
    fields = {}
    for k, e in model.parsed[t]:
        fields[k] = draw(value(model.specs[(t, k)], search_p, wide, digits_dense))
    return t, fields


@st.composite
def valid_string(draw, model: SidModel, types=None, search_p=0.0, wide=False, digits_dense=False):
    t, f = draw(typed_fields(model, types, search_p, wide, digits_dense))
    return t, SIP.join(f[k] for k in model.keys(t))


def all_aliases(model: SidModel) -> List[str]:
    return sorted(model.extension_alias.keys())


def values_of_any_level(model: SidModel) -> List[str]:
    vals = set()
    for spec in model.specs.values():
        vals.update(spec.literals)
        for p, n in spec.digit_forms:
            vals.add(p + "1".zfill(n))
    return sorted(vals)
