"""
Hypothesis strategies, all derived from the reference model of the loaded configuration
(no demo key, type or value is named here).
"""
from __future__ import annotations

from typing import Dict, List, Optional

from hypothesis import strategies as st

from vp.confmodel import SidModel, KeySpec, SIP

# Free names. The small pool makes names collide / share prefixes; the wide one stresses typing.
SMALL_NAMES = ["x", "y", "x-1", "x.b", "x_y", "x+", "y2", "xx", "X", "a", "s", "w", "v001"]
WIDE_ALPHABET = "abxyz019_-.+ 'Aé\\\"~!@$^()[]{}|;=&%#\u0301"   # the last one is a combining accent (decomposed spelling)
JUNK_SEGMENTS = ["", " ", "bla", "hamlet ", "V001", "v01", "v0001", "sq1", "sh001", "A", "S", "**", "***", "*", ">", "<",
                 "x*", "*x", "v*", "ma,mb", "x,y", ",", "a,s", "\n", "x\n", "\nx", "\t", "\r", "\x00", "x\x00",
                 "é", "x y", ".", "..", "%20", "None"]
CONTROL = ["\n", "\r", "\t", "\x00", "\x0b", "\x1f", " "]


_collision_pool: List[str] = []


def collision_pool() -> List[str]:
    """Values of OTHER levels of the loaded configuration (task names, extensions, aliases, versions, type codes ...):
    a free-valued level may legitimately carry any of them, which makes strings ambiguous between templates."""
    if not _collision_pool:
        from vp import confmodel
        m = confmodel.load_sid()
        _collision_pool.extend(values_of_any_level(m) + sorted(m.extension_alias))
    return _collision_pool


def free_name(wide: bool = False) -> st.SearchStrategy[str]:
    if not wide:
        # mostly the small pool, sometimes a name that is also a value of another level (task, extension, alias ...)
        return st.one_of(st.sampled_from(SMALL_NAMES), st.sampled_from(SMALL_NAMES), st.sampled_from(SMALL_NAMES),
                         st.sampled_from(collision_pool()))
    return st.one_of(
        st.sampled_from(SMALL_NAMES),
        st.text(alphabet=WIDE_ALPHABET, min_size=1, max_size=8),
        st.sampled_from(collision_pool()),
    )


def concrete_value(spec: KeySpec, wide: bool = False, digits_dense: bool = False) -> st.SearchStrategy[str]:
    """A concrete (non-search) value accepted by the key's pattern."""
    if spec.free:
        return free_name(wide)
    options = []
    if spec.literals:
        options.append(st.sampled_from(spec.literals))
    for prefix, n in spec.digit_forms:
        hi = 10 ** n - 1
        if digits_dense:
            num = st.integers(0, min(hi, 6))
        else:
            num = st.one_of(st.integers(0, min(hi, 12)), st.integers(0, hi), st.sampled_from([0, hi, max(hi - 1, 0)]))
        options.append(num.map(lambda v, p=prefix, n=n: p + str(v).zfill(n)))
    if spec.opaque or not options:
        if spec.expr is not None:
            options.append(st.from_regex(r"(?:%s)" % spec.expr, fullmatch=True).filter(
                lambda v: v not in ("*", ">", "<", "**") and "/" not in v))
        else:
            options.append(free_name(wide))
    return st.one_of(*options)


def value(spec: KeySpec, search_p: float = 0.0, wide: bool = False, digits_dense: bool = False):
    """A value accepted by the pattern: concrete, or (with the given weight) a search symbol it accepts."""
    conc = concrete_value(spec, wide, digits_dense)
    syms = list(spec.symbols)
    if spec.free:
        syms = ["*", ">"]
    if not syms or search_p <= 0:
        return conc
    return st.integers(0, 99).flatmap(lambda r: st.sampled_from(syms) if r < search_p * 100 else conc)


@st.composite
def typed_fields(draw, model: SidModel, types: Optional[List[str]] = None, search_p: float = 0.0,
                 wide: bool = False, digits_dense: bool = False):
    """(type, ordered fields) with every value accepted by its pattern."""
    t = draw(st.sampled_from(types or model.types))
    fields = {}
    for k, e in model.parsed[t]:
        fields[k] = draw(value(model.specs[(t, k)], search_p, wide, digits_dense))
    return t, fields


@st.composite
def valid_string(draw, model: SidModel, types=None, search_p=0.0, wide=False, digits_dense=False):
    t, f = draw(typed_fields(model, types, search_p, wide, digits_dense))
    return t, SIP.join(f[k] for k in model.keys(t))


def all_aliases(model: SidModel) -> List[str]:
    return sorted(model.extension_alias.keys())


def values_of_any_level(model: SidModel) -> List[str]:
    vals = set()
    for spec in model.specs.values():
        vals.update(spec.literals)
        for p, n in spec.digit_forms:
            vals.add(p + "1".zfill(n))
    return sorted(vals)


# ----------------------------------------------------------------------------------------------
# Searches (C07 family)
# ----------------------------------------------------------------------------------------------

def _qsafe(v: str) -> str:
    for c in "%+&=#;? \t\n\r":
        v = v.replace(c, "")
    return v or "x"


@st.composite
def search_from(draw, m: SidModel, t: str, fields: Dict[str, str], allow_gt: bool = True, inseg_star: bool = False,
                allow_filters: bool = True, allow_malformed: bool = True, star_p: int = 35):
    """A search string derived from a valid concrete Sid (t, fields). Returns {'s', 'labels'}."""
    keys = m.keys(t)
    segs = [fields[k] for k in keys]
    labels = []
    syms = ["*", "*", "*"] + ([">"] if allow_gt else [])
    for i, k in enumerate(keys):
        r = draw(st.integers(0, 99))
        spec = m.specs[(t, k)]
        if r < star_p:
            segs[i] = draw(st.sampled_from(syms))
            labels.append("sym:" + segs[i])
        elif r < star_p + 8:
            n = draw(st.integers(2, 3))
            alts = [segs[i]] + [draw(st.one_of(concrete_value(spec), st.sampled_from(["zz", "*"]))) for _ in range(n - 1)]
            alts = draw(st.permutations(alts))
            sep = draw(st.sampled_from([",", ",", ", "]))
            segs[i] = sep.join(alts)
            labels.append("comma")
        elif r < star_p + 11 and inseg_star and segs[i]:
            pos = draw(st.integers(0, len(segs[i])))
            end = draw(st.integers(pos, len(segs[i])))
            segs[i] = segs[i][:pos] + "*" + segs[i][end:]
            labels.append("inseg-star")
    # alias in the last segment
    aliases = all_aliases(m)
    if aliases and draw(st.integers(0, 9)) < 2:
        al = [a for a in aliases if m.accepts(t, [fields[k] for k in keys[:-1]] + [a])] or aliases
        a = draw(st.sampled_from(al))
        segs[-1] = a if draw(st.booleans()) else segs[-1] + "," + a
        labels.append("alias")
    # '**'
    r = draw(st.integers(0, 99))
    covered = []
    if r < 30 and len(segs) >= 1:
        i = draw(st.integers(1, len(segs)))          # span start (never the very first segment: root must exist)
        j = draw(st.integers(i, len(segs)))          # span end (i == j: zero-length, '**' inserted)
        covered = list(keys[i:j])
        segs = segs[:i] + ["**"] + segs[j:]
        labels.append("dstar:" + ("end" if j >= len(keys) else "middle") + (":zero" if i == j else ""))
    forced_filter = None
    free_idx = [i for i, k in enumerate(keys) if m.specs[(t, k)].free and i >= 1]
    if free_idx and allow_filters and draw(st.integers(0, 99)) < 6:
        # '**' standing exactly where a free-valued level starts, with a filter on that level: the filter must
        # constrain the expansion (a Sid typed from the raw string would take '**' as the free value and overwrite it)
        i = draw(st.sampled_from(free_idx))
        j = draw(st.integers(i + 1, len(keys)))
        segs = [fields[k] for k in keys[:i]] + ["**"] + [fields[k] for k in keys[j:]]
        forced_filter = f"{keys[i]}={_qsafe(draw(st.one_of(st.just(fields[keys[i]]), concrete_value(m.specs[(t, keys[i])]))))}"
        labels.append("dstar-over-free-key-with-filter")
    malformed = False
    if allow_malformed and draw(st.integers(0, 99)) < 6:
        malformed = True
        kind = draw(st.sampled_from(["two-dstar", "dstar-noslash", "bad-root", "empty-seg", "tristar", "lone-q", "dstar-first"]))
        labels.append("malformed:" + kind)
        if kind == "two-dstar":
            segs = segs[:1] + ["**"] + segs[1:2] + ["**"] + segs[3:]
        elif kind == "dstar-noslash":
            segs[-1] = segs[-1] + "**"
        elif kind == "bad-root":
            segs = ["bla"] + segs[1:2] + ["**"]
        elif kind == "empty-seg":
            i = draw(st.integers(0, len(segs) - 1))
            segs[i] = ""
        elif kind == "tristar":
            segs = segs[:2] + ["***"]
        elif kind == "dstar-first":
            segs = ["**"] + segs[1:]
    s = "/".join(segs)
    if malformed and "malformed:lone-q" in labels:
        s = s + "?"
    # filters
    if allow_filters:
        nf = draw(st.sampled_from([0, 0, 0, 1, 1, 2]))
        filters = []
        base = m.basetype(t)
        for _ in range(nf):
            kind = draw(st.sampled_from(["existing", "existing", "existing-star", "existing-bad", "deeper", "foreign", "unknown", "alias", "comma"]
                                        + (["covered", "covered", "covered"] if covered else [])))
            opt = draw(st.sampled_from(["", "", "~"]))
            if kind == "covered":
                # a key that lies under the '**' span: the filter must constrain the expansion, not replace the '**'
                k = draw(st.sampled_from(covered))
                v = draw(st.one_of(st.just(fields[k]), concrete_value(m.specs[(t, k)])))
                filters.append(f"{k}={opt}{_qsafe(v)}")
                labels.append("filter:covered-by-dstar")
                continue
            if kind in ("existing", "existing-star", "existing-bad", "comma"):
                k = draw(st.sampled_from(keys))
                spec = m.specs[(t, k)]
                if kind == "existing":
                    v = draw(st.one_of(st.just(fields[k]), concrete_value(spec)))
                elif kind == "existing-star":
                    v = draw(st.sampled_from(["*"] + ([">"] if allow_gt else [])))
                elif kind == "existing-bad":
                    v = draw(st.sampled_from(["zz", "V1", "bla"]))
                else:
                    v = fields[k] + "," + draw(concrete_value(spec))
            elif kind == "deeper":
                longer = [x for x in m.types if m.basetype(x) == base and m.keys(x)[:len(keys)] == keys and len(m.keys(x)) > len(keys)]
                if longer:
                    lt = draw(st.sampled_from(longer))
                    k = m.keys(lt)[len(keys)]
                    v = draw(value(m.specs[(lt, k)], 0.3))
                else:
                    k, v = keys[-1], fields[keys[-1]]
            elif kind == "foreign":
                others = [(x, kk) for x in m.types if m.basetype(x) != base for kk in m.keys(x) if kk not in keys]
                if others:
                    x, k = draw(st.sampled_from(others))
                    v = draw(value(m.specs[(x, k)], 0.2))
                else:
                    k, v = "nokey", "x"
            elif kind == "alias" and aliases:
                k = m.leaf_key(t) or keys[-1]
                v = draw(st.sampled_from(aliases))
            else:
                k, v = "nokey", "x"
            if not allow_gt:
                v = ",".join("*" if x == ">" else x for x in v.split(","))
            filters.append(f"{k}={opt}{_qsafe(v) if ',' not in v else ','.join(_qsafe(x) for x in v.split(','))}")
            labels.append("filter:" + kind + ("/opt" if opt else ""))
        if forced_filter:
            filters.append(forced_filter)
        if filters:
            s = s + "?" + "&".join(filters)
    return {"s": s, "labels": labels}


@st.composite
def search(draw, m: SidModel, types=None, **kw):
    t, f = draw(typed_fields(m, types, search_p=0.0, wide=False, digits_dense=True))
    r = draw(search_from(m, t, f, **kw))
    r["from"] = t
    return r


# ----------------------------------------------------------------------------------------------
# Universes: sets of concrete entities sharing prefixes
# ----------------------------------------------------------------------------------------------

def entity_value(m: SidModel, t: str, k: str, names=None):
    """Concrete value for an entity: dense digits, small name pool, alias names excluded."""
    spec = m.specs[(t, k)]
    aliases = set(m.extension_alias)
    if spec.free:
        if names:
            return st.sampled_from(names)
        # small pool plus a few names that collide with values of other levels (a task name, an extension, ...)
        pool = collision_pool()
        extra = [pool[i] for i in (0, len(pool) // 3, len(pool) // 2, len(pool) - 1)] if pool else []
        return st.sampled_from(SMALL_NAMES + [x for x in extra if x not in aliases and x not in ("*", ">")])
    strat = concrete_value(spec, wide=False, digits_dense=True)
    if any(l in aliases for l in spec.literals):
        strat = strat.filter(lambda v: v not in aliases)
    return strat


@st.composite
def universe(draw, m: SidModel, types: Optional[List[str]] = None, min_size: int = 3, max_size: int = 20, names=None):
    """List of distinct (type, fields) concrete entities; later ones often share a prefix with earlier ones."""
    types = types or m.types
    n = draw(st.integers(min_size, max_size))
    ents: List = []
    seen = set()
    for _ in range(n):
        if ents and draw(st.integers(0, 9)) < 7:
            t0, f0 = ents[draw(st.integers(0, len(ents) - 1))]
            # same basetype, any depth; keep a common prefix with the chosen entity
            cands = [x for x in types if m.basetype(x) == m.basetype(t0)] or [t0]
            t = draw(st.sampled_from(cands))
            keys = m.keys(t)
            keep = draw(st.integers(0, len(keys)))
            f = {}
            for i, k in enumerate(keys):
                if i < keep and k in f0 and m.accepts_value(t, k, f0[k]):
                    f[k] = f0[k]
                else:
                    f[k] = draw(entity_value(m, t, k, names))
        else:
            t = draw(st.sampled_from(types))
            f = {k: draw(entity_value(m, t, k, names)) for k in m.keys(t)}
        key = (t, tuple(f.items()))
        if key not in seen:
            seen.add(key)
            ents.append((t, f))
    # sometimes: a sibling whose free value EXTENDS another entity's value by a separator and a token
    # (names like 'x' and 'x_y' are ambiguous wherever fields are joined by that separator, e.g. in file names)
    if ents and draw(st.integers(0, 3)) == 0:
        for t, f in list(ents)[:4]:
            fk = [k for k in m.keys(t) if m.specs[(t, k)].free]
            if fk:
                k = fk[-1]
                g = dict(f)
                tok, sp = draw(st.sampled_from(["y", "w", "x"])), draw(st.sampled_from(["_", "-", "."]))
                # ... or is extended at the FRONT ('x' and 'y_x': ambiguous where a joined name is globbed from the left)
                g[k] = (tok + sp + f[k]) if draw(st.integers(0, 2)) == 0 else (f[k] + sp + tok)
                key = (t, tuple(g.items()))
                if key not in seen:
                    seen.add(key)
                    ents.append((t, g))
    return ents


def ancestors(m: SidModel, t: str, f: Dict[str, str]):
    """(type, fields) of every proper '/'-prefix that has a type (first type fitting the prefix fields)."""
    keys = m.keys(t)
    out = []
    for i in range(1, len(keys)):
        pf = {k: f[k] for k in keys[:i]}
        ts = m.types_for_fields(pf)
        if ts:
            out.append((ts[0], pf))
    return out


def closure(m: SidModel, ents):
    """Entities plus all their typed ancestors, without duplicates (by string)."""
    out, seen = [], set()
    for t, f in ents:
        for tt, ff in ancestors(m, t, f) + [(t, f)]:
            s = m.render(tt, ff)
            if s not in seen:
                seen.add(s)
                out.append((tt, ff))
    return out


@st.composite
def gt_search(draw, m: SidModel, t: str, fields: Dict[str, str]):
    """A search with '>' at one position (optionally a second one further right), '*' / alias / '**' elsewhere."""
    keys = m.keys(t)
    segs = [fields[k] for k in keys]
    labels = []
    i = draw(st.integers(0, len(keys) - 1))
    via_query = draw(st.integers(0, 9)) < 2 and i >= 1
    for j in range(len(keys)):
        if j == i:
            continue
        r = draw(st.integers(0, 99))
        if r < 35:
            segs[j] = "*"
        elif r < 40:
            spec = m.specs[(t, keys[j])]
            segs[j] = segs[j] + "," + draw(concrete_value(spec, digits_dense=True))
            labels.append("comma")
    if i < len(keys) - 1 and draw(st.integers(0, 9)) < 2:
        j = draw(st.integers(i + 1, len(keys) - 1))
        segs[j] = ">"
        labels.append("second-gt")
    aliases = all_aliases(m)
    if aliases and i != len(keys) - 1 and segs[-1] != ">" and draw(st.integers(0, 9)) < 2:
        al = [a for a in aliases if m.accepts(t, [fields[k] for k in keys[:-1]] + [a])]
        if al:
            segs[-1] = draw(st.sampled_from(al))
            labels.append("alias")
    q = ""
    if via_query:
        segs[i] = "*"
        q = f"?{keys[i]}=>"
        labels.append("gt-via-filter")
    else:
        segs[i] = ">"
    # '**' on a span that does not contain the '>' position(s)
    if draw(st.integers(0, 9)) < 2 and m.is_leaf_type(t):
        gts = [j for j, s in enumerate(segs) if s == ">"] or [i]
        lo, hi = min(gts), max(gts)
        if via_query:
            a = draw(st.integers(1, len(segs)))
            b = draw(st.integers(a, len(segs)))
            segs = segs[:a] + ["**"] + segs[b:]
            labels.append("dstar")
        elif hi < len(segs) - 1 and draw(st.booleans()):
            a = draw(st.integers(hi + 1, len(segs)))
            b = draw(st.integers(a, len(segs)))
            segs = segs[:a] + ["**"] + segs[b:]
            labels.append("dstar-right")
        elif lo >= 2:
            a = draw(st.integers(1, lo))
            b = draw(st.integers(a, lo))
            segs = segs[:a] + ["**"] + segs[b:]
            labels.append("dstar-left")
    labels.append(f"gt-at:{i}")
    if not via_query and len(keys) >= 4 and draw(st.integers(0, 19)) == 0:
        # '**' right after the first level, '>' right after it: the shortest expansion carries the '>' on a narrowed level
        rest = ["*" if draw(st.booleans()) else fields[k] for k in keys[3:]]
        segs = [fields[keys[0]] if draw(st.booleans()) else "*", "**", ">"] + rest
        labels.append("gt-after-leading-dstar")
    return {"s": "/".join(segs) + q, "labels": labels, "gt_index": i}
