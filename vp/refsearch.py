"""
Reference semantics of the search syntax, written from the statements of C07 - C11
on top of the reference configuration model (vp.confmodel). Nothing here calls the library.
"""
from __future__ import annotations

import itertools
import re
from typing import Dict, FrozenSet, Iterable, List, Optional, Sequence, Set, Tuple

from vp.confmodel import SidModel, SEARCH_SYMBOLS


class RefSpilException(Exception):
    """The reference expects the library to raise SpilException."""


def parse_query(q: str) -> List[Tuple[str, str]]:
    """'a=b&c=d' (a '?' reads as '&'); blank values are dropped, later duplicates win (kept in first position)."""
    q = q.replace("?", "&")
    pairs: Dict[str, str] = {}
    for item in q.split("&"):
        if not item or "=" not in item:
            continue
        k, v = item.split("=", 1)
        if v == "":
            continue
        pairs[k] = v
    return list(pairs.items())


def query_text(pairs: Sequence[Tuple[str, str]]) -> str:
    return "&".join(f"{k}={v}" for k, v in pairs)


def expand_alias_alts(m: SidModel, alts: List[str]) -> List[str]:
    out = []
    for a in alts:
        out.extend(m.extension_alias.get(a, [a]))
    return sorted(set(out))


def split_search(s: str):
    if "?" in s:
        path, q = s.split("?", 1)
    else:
        path, q = s, None
    return path, q


def leaf_key_names(m: SidModel) -> Set[str]:
    return {v for v in m.leaf_keys.values() if v}


def path_alternatives(m: SidModel, path: str) -> List[str]:
    """(1) aliases in the last segment, (2) distribution of every ',' in a segment."""
    segs = path.split("/")
    per_seg: List[List[str]] = []
    for i, seg in enumerate(segs):
        last = i == len(segs) - 1
        if "," in seg:
            alts = [a.strip() for a in seg.split(",")]
        else:
            alts = [seg]
        if last and seg:
            alts = expand_alias_alts(m, alts)
        # duplicates inside one segment denote the same alternative
        seen, uniq = set(), []
        for a in alts:
            if a not in seen:
                seen.add(a)
                uniq.append(a)
        per_seg.append(uniq)
    return ["/".join(c) for c in itertools.product(*per_seg)]


def query_alternatives(m: SidModel, q: Optional[str]) -> List[Optional[List[Tuple[str, str]]]]:
    if q is None or q == "":
        return [None]
    pairs = parse_query(q)
    if not pairs:
        return [None]
    leafs = leaf_key_names(m)
    per_key = []
    for k, v in pairs:
        v = v.replace(" ", "")
        alts = v.split(",") if "," in v else [v]
        if k in leafs:
            alts = expand_alias_alts(m, alts)
        per_key.append([(k, a) for a in alts])
    return [list(c) for c in itertools.product(*per_key)]


class Form:
    """One typed search: (type, fields) + canonical string."""
    __slots__ = ("type", "fields", "string", "alt_types")

    def __init__(self, t, fields, string, alt_types=None):
        self.type = t
        self.fields = dict(fields)
        self.string = string
        self.alt_types = tuple(alt_types) if alt_types else (t,)

    @property
    def uri(self):
        return f"{self.type}:{self.string}"

    def alt_uris(self) -> FrozenSet[str]:
        return frozenset(f"{t}:{self.string}" for t in self.alt_types)

    def __repr__(self):
        return f"Form({self.uri})"


def apply_pairs(m: SidModel, form: Form, pairs: Sequence[Tuple[str, str]], qtext: str) -> Optional[Form]:
    """Decision table of query application on a typed form; None when the query does not fit."""
    string, t, fields, applied, row = m.apply_query(form.string, form.type, form.fields, list(pairs), qtext)
    if not applied:
        return None
    if row == "many-without-search":
        T = t
        new = fields
        # some type in T: the string is the same for all of them only if the key orders agree
        t0 = T[0]
        return Form(t0, m.ordered(t0, new), m.render(t0, new), alt_types=[x for x in T if m.render(x, new) == m.render(t0, new)])
    return Form(t, fields, string)


def typed_forms(m: SidModel, path: str) -> List[Form]:
    """(3) '/**' expansion to leaf types, (4) every accepting type otherwise. May raise RefSpilException."""
    n = path.count("/**")
    if n > 1:
        raise RefSpilException("more than one '**'")
    if n == 1:
        root = path.split("/**")[0]
        rt, _ = m.type_first(root)
        if not rt:
            raise RefSpilException("untypable root before '**'")
        leaf_key = m.leaf_keys.get(m.basetype(rt))
        if not leaf_key:
            raise RefSpilException("no leaf key for basetype")
        forms = []
        max_levels = max(len(m.keys(t)) for t in m.types)
        seen = set()
        for k in range(0, max_levels + 1):
            test = path.replace("/**", "/*" * k)
            for t, f in m.types_all(test).items():
                if m.keys(t)[-1] == leaf_key and (t, test) not in seen:
                    seen.add((t, test))
                    forms.append(Form(t, f, test))
        return forms
    return [Form(t, f, path) for t, f in m.types_all(path).items()]


def narrow(m: SidModel, form: Form) -> Optional[Form]:
    q = m.narrowing.get(m.basetype(form.type), "")
    if q:
        form = apply_pairs(m, form, parse_query(q), q)
        if form is None:
            return None
    q = (m.typed_narrowing or {}).get(form.type, "")
    if q:
        form = apply_pairs(m, form, parse_query(q), q)
    return form


def narrowing_keys(m: SidModel) -> Set[str]:
    ks = set()
    for q in list(m.narrowing.values()) + list((m.typed_narrowing or {}).values()):
        for k, _ in parse_query(q):
            ks.add(k)
    return ks


def unfold(m: SidModel, s: str) -> List[Form]:
    """
    The typed searches denoted by s (C07 statement), as a duplicate-free list of Forms.
    Raises RefSpilException where the statement expects SpilException.
    """
    path, q = split_search(s)
    results: Dict[FrozenSet[str], Form] = {}
    error = None
    for p in path_alternatives(m, path):
        for pairs in query_alternatives(m, q):
            try:
                forms = typed_forms(m, p)
            except RefSpilException as e:
                error = e
                continue
            for f in forms:
                if pairs:
                    f = apply_pairs(m, f, pairs, query_text(pairs))
                    if f is None:
                        continue
                f = narrow(m, f)
                if f is None:
                    continue
                results.setdefault(f.alt_uris(), f)
    if error is not None:
        raise error
    return list(results.values())


# ----------------------------------------------------------------------------------------------
# Glob matching of entries against forms (C08 statement)
# ----------------------------------------------------------------------------------------------

_glob_cache: Dict[str, "re.Pattern"] = {}


def seg_glob(pattern: str, value: str) -> bool:
    """'*' = any run of characters except '/', every other character literal."""
    rx = _glob_cache.get(pattern)
    if rx is None:
        rx = re.compile("[^/]*".join(re.escape(p) for p in pattern.split("*")), re.DOTALL)
        _glob_cache[pattern] = rx
    return rx.fullmatch(value) is not None


def glob_match(search_string: str, entry: str) -> bool:
    ps, es = search_string.split("/"), entry.split("/")
    if len(ps) != len(es):
        return False
    return all(seg_glob(p, e) for p, e in zip(ps, es))


def glob_match_fnmatch(search_string: str, entry: str) -> bool:
    """Alternative semantics (fnmatch-style '[seq]' / '[!seq]' character classes and '?'), used only to
    recognise the known finding 'bracket characters are not literal'."""
    import fnmatch
    ps, es = search_string.split("/"), entry.split("/")
    if len(ps) != len(es):
        return False
    return all(fnmatch.fnmatchcase(e, p) for p, e in zip(ps, es))
