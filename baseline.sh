#!/bin/sh
# Runs the repository's pinned baseline suite (guard OFF: the machinery uses no source hooks) and
# checks that every test of BASELINE.json's stable_pass list still passes.
out=$(mktemp /dev/shm/spil-baseline.XXXXXX.xml)
cd "${REPO_DIR:-/repo}" && env -u SPIL_VERIF /venv/bin/python -m pytest -ra -q -p no:cacheprovider --timeout=900 \
   --continue-on-collection-errors --junitxml="$out" >/dev/null 2>&1
/venv/bin/python - "$out" <<'PY'
import json, sys, xml.etree.ElementTree as ET
base = json.load(open('/root/.vp/BASELINE.json'))
want = set(base['stable_pass'])
root = ET.parse(sys.argv[1]).getroot()
passed = set()
for tc in root.iter('testcase'):
    bad = any(c.tag in ('failure', 'error', 'skipped') for c in tc)
    name = f"{tc.get('classname')}::{tc.get('name')}"
    if not bad:
        passed.add(name)
missing = sorted(w for w in want if w not in passed)
print(f"baseline: {len(want) - len(missing)}/{len(want)} stable tests pass")
for m in missing:
    print("  MISSING", m)
sys.exit(1 if missing else 0)
PY
rc=$?
rm -f "$out"
exit $rc
